package main

import "fmt"

const communityPkg = zlintMod + "/lints/community"
const cabfBRPkg = zlintMod + "/lints/cabf_br"

func init() {
	checks["C16"] = func(c *Check) {
		c.Technique = "symbolic execution of go/ssa + SMT (z3): modulus as an unbounded mathematical integer, exponent as a 64-bit int; lints reached through the registry built by the engine-executed init chain"
		c.Assume("P3: parsed RSA keys have N > 0 and E > 0, and PublicKeyAlgorithm == RSA exactly when PublicKey is *rsa.PublicKey (zcrypto x509.go parsePublicKey)")
		c.Assume("math/big methods are modelled by their documented meaning over SMT Int; BitLen by exact threshold axioms (b >= c <=> |x| >= 2^(c-1)) at the anchors listed in the evidence")
		minLen := []struct {
			name string
			min  int
		}{
			{"e_rsa_mod_less_than_2048_bits", 2048}, {"e_mp_modulus_must_be_2048_bits_or_more", 2048}, {"e_old_root_ca_rsa_mod_less_than_2048_bits", 2048},
			{"e_old_sub_ca_rsa_mod_less_than_1024_bits", 1024}, {"e_old_sub_cert_rsa_mod_less_than_1024_bits", 1024}, {"e_cs_rsa_key_size", 3072},
		}
		for _, m := range minLen {
			m := m
			c.Add(&Job{Label: "MinLength/" + m.name, Pkg: rootPkg, Func: "VerifC16MinLength", MustCover: []string{"applies", "short modulus", "long enough"},
				Tune: func(cf *Config) {
					cf.StrParams["c16.lint"] = m.name
					cf.Bounds["param:c16.min"] = m.min
					// exact bit-length thresholds around the minimum, so that code computing with the bit length
					// (rounding to bytes, off-by-one comparisons) is decided and not just the plain comparison
					for k := m.min - 9; k <= m.min+9; k++ {
						cf.BitLenExtra = append(cf.BitLenExtra, k)
					}
				}})
		}
		windows := [][2]int{{1, 17}, {1016, 1033}, {2040, 2057}, {3064, 3081}, {4088, 4105}}
		if c.Quick() {
			windows = [][2]int{{1, 17}, {2040, 2057}}
		}
		for _, w := range windows {
			w := w
			c.Add(&Job{Label: fmt.Sprintf("DivisibleBy8/%d-%d", w[0], w[1]), Pkg: rootPkg, Func: "VerifC16DivisibleBy8", MustCover: []string{"not a multiple of 8", "multiple of 8"},
				Tune: func(cf *Config) {
					cf.Bounds["param:c16.lo"], cf.Bounds["param:c16.hi"] = w[0], w[1]
					for k := w[0] - 1; k <= w[1]+1; k++ {
						if k >= 1 {
							cf.BitLenExtra = append(cf.BitLenExtra, k)
						}
					}
					cf.Unwind = 40
				}})
		}
		c.Add(&Job{Pkg: rootPkg, Func: "VerifC16ModulusParity", MustCover: []string{"even modulus", "odd modulus"}})
		c.Add(&Job{Pkg: rootPkg, Func: "VerifC16Exponent", MustCover: []string{"even exponent", "exponent below 3", "exponent one", "exponent below 65537", "exponent in range"}})
		primeMerge := func(cf *Config) {
			cf.Merge["github.com/zmap/zlint/v3/util.PrimeNoSmallerThan752"] = true
			cf.LazyFeas = true
			cf.Unwind = 200
		}
		c.Add(&Job{Pkg: rootPkg, Func: "VerifC16SmallFactorLint", MustCover: []string{"small factor", "no small factor"}, Tune: primeMerge, NoReplay: true})
		c.Add(&Job{Pkg: utilPkg, Func: "VerifC16TableFacts", MustCover: []string{"table"}})
		c.Add(&Job{Pkg: utilPkg, Func: "VerifC16TrialConcrete", MustCover: []string{"both answers"}})
		c.Add(&Job{Pkg: utilPkg, Func: "VerifC16TrialSound", MustCover: []string{"coprime to the table"}, Tune: func(cf *Config) { cf.Unwind = 200; cf.Solver = "cvc5"; cf.LazyFeas = true }, NoReplay: true})
		// completeness of trial division: 750 unsat queries on the single "no factor found" path
		c.Add(&Job{Pkg: utilPkg, Func: "VerifC16TrialDivision", NoReplay: true,
			Tune: func(cf *Config) { cf.Unwind = 200; cf.Solver = "cvc5"; cf.LazyFeas = true }})
		rounds := 3
		if !c.Quick() {
			rounds = 5
		}
		c.Add(&Job{Pkg: communityPkg, Func: "VerifC16FermatSound", MustCover: []string{"factorisation reported", "no factorisation reported"}, Tune: func(cf *Config) { cf.Bounds["param:c16.rounds"] = rounds }})
		// completeness: n = A^2 - d^2 (every product of two distinct factors of equal parity), explicit case
		// split on (rounds, index of the round in which a reaches A); nonlinear integer queries: cvc5 decides
		// them in seconds where z3 answers unknown (probed: DESIGN.md C16)
		c.Add(&Job{Pkg: communityPkg, Func: "VerifC16FermatComplete", MustCover: []string{"close factors", "factors too far apart"}, NoReplay: true,
			Tune: func(cf *Config) { cf.Bounds["param:c16.rounds"] = rounds; cf.Solver = "cvc5"; cf.LazyFeas = true }})
		c.Add(&Job{Pkg: communityPkg, Func: "VerifC16FermatLint", MustCover: []string{"factorisation reported", "no factorisation reported"}, Tune: func(cf *Config) { cf.Bounds["param:c16.rounds"] = rounds }})
	}
}
