package main

// Intrinsics of the overlay-only harness helper package zzverif.

import (
	"fmt"
	"go/types"
	"math/big"
	"os"
	"reflect"
	"regexp"
	"strings"
	"time"

	"golang.org/x/tools/go/ssa"
)

const zzPath = "github.com/zmap/zlint/v3/zzverif"

func (e *Exec) recNondet(kind, sym string, n int) {
	e.nondet = append(e.nondet, NondetRec{Kind: kind, Sym: sym, N: n})
}

func (e *Exec) zzCall(fn *ssa.Function, args []Value) Value {
	name := fn.Name()
	if o := fn.Origin(); o != nil {
		name = o.Name()
	}
	switch name {
	case "Int", "Int64", "Uint64":
		n := e.freshInput("nd", "(_ BitVec 64)")
		e.recNondet("u64", n, 0)
		return &BV{T: n, W: 64}
	case "Int32", "Uint32":
		n := e.freshInput("nd", "(_ BitVec 32)")
		e.recNondet("u32", n, 0)
		return &BV{T: n, W: 32}
	case "Byte":
		n := e.freshInput("nd", "(_ BitVec 8)")
		e.recNondet("u8", n, 0)
		return &BV{T: n, W: 8}
	case "Bool":
		n := e.freshInput("nd", "Bool")
		e.recNondet("bool", n, 0)
		return &BoolV{T: n}
	case "String":
		e.nfresh++
		n := fmt.Sprintf("nd!%d", e.nfresh)
		s := e.newSymString(n)
		e.recNondet("string", n, 0)
		return s
	case "Bytes", "BytesN":
		max, ok := concInt(args[0])
		if !ok {
			e.unsupported("zz.Bytes with symbolic bound")
		}
		arr := &ArrayV{E: make([]Value, max)}
		e.nfresh++
		base := fmt.Sprintf("nd!%d", e.nfresh)
		for i := range arr.E {
			n := fmt.Sprintf("%s_%d", base, i)
			e.declareInput(n, "(_ BitVec 8)")
			arr.E[i] = &BV{T: n, W: 8}
		}
		var l *BV
		if name == "Bytes" {
			ln := base + "_len"
			e.declareInput(ln, "(_ BitVec 64)")
			e.assume(fmt.Sprintf("(bvule %s (_ bv%d 64))", ln, max))
			l = &BV{T: ln, W: 64}
			e.recNondet("bytes", base, int(max))
		} else {
			l = cbv(uint64(max), 64)
			e.recNondet("bytesn", base, int(max))
		}
		return &SliceV{O: e.newObj(arr, base), Len: l, Cap: int(max)}
	case "Time":
		e.nfresh++
		n := fmt.Sprintf("nd!%d", e.nfresh)
		e.recNondet("time", n, 0)
		return e.symTime(n)
	case "BigInt":
		n := e.freshInput("nd", "Int")
		e.recNondet("big", n, 0)
		o := e.newObj(&BigV{T: n}, n)
		return &PtrV{O: o}
	case "Assume":
		c := args[0].(*BoolV)
		if c.C != nil {
			if !*c.C {
				panic(pathEnd{"infeasible", "assume(false)"})
			}
			return nil
		}
		if !e.branchAssume(c) {
			panic(pathEnd{"infeasible", "assume"})
		}
		return nil
	case "Assert":
		msg, _ := concStr(args[1])
		e.assertion(args[0].(*BoolV), msg)
		return nil
	case "Cover":
		msg, _ := concStr(args[0])
		e.covers = append(e.covers, msg)
		return nil
	case "Lazy":
		nm, ok := concStr(args[0])
		if !ok {
			e.unsupported("zz.Lazy with symbolic name")
		}
		ta := fn.TypeArgs()
		if len(ta) != 1 {
			e.unsupported("zz.Lazy without type argument")
		}
		e.recNondet("lazy", nm, 0)
		o := e.newObj(&LazyV{Name: nm, T: ta[0]}, nm)
		o.Tag = "input:" + nm
		o.T = ta[0]
		return &PtrV{O: o}
	case "NamedConsts":
		pp, _ := concStr(args[0])
		tn, _ := concStr(args[1])
		vals := e.namedConsts(pp, tn)
		e.nondet = append(e.nondet, NondetRec{Kind: "consts", Sym: pp + "." + tn, Val: strings.Join(vals, "\x00")})
		return e.strSliceVal(vals)
	case "Param":
		nm, _ := concStr(args[0])
		def, _ := concInt(args[1])
		v := int(def)
		if b, ok := e.cfg.Bounds["param:"+nm]; ok {
			v = b
		}
		e.nondet = append(e.nondet, NondetRec{Kind: "param", Sym: nm, Val: fmt.Sprint(v)})
		return cbv(uint64(v), 64)
	case "And":
		return band(args[0].(*BoolV), args[1].(*BoolV))
	case "Or":
		return bor(args[0].(*BoolV), args[1].(*BoolV))
	case "Implies":
		return bor(bnot(args[0].(*BoolV)), args[1].(*BoolV))
	case "Iff":
		return beq(args[0].(*BoolV), args[1].(*BoolV))
	case "Realise", "RealiseCRL", "RealiseOr", "RealiseCRLOr":
		// identity under the symbolic executor (natively: DER round trip through the real parser)
		return args[0]
	case "JSONTags":
		// the encoding/json view of a struct type, read from the struct tags of the current source: one entry
		// "GoField|key|options|type" per field the codec would consider (embedded structs without a tag are
		// flattened, unexported fields skipped)
		iv, ok := args[0].(*IfaceV)
		if !ok || iv.T == nil {
			e.unsupported("zz.JSONTags of a nil interface")
		}
		t := iv.T
		if p, ok := t.Underlying().(*types.Pointer); ok {
			t = p.Elem()
		}
		st, ok := t.Underlying().(*types.Struct)
		if !ok {
			e.unsupported("zz.JSONTags of non-struct %s", t.String())
		}
		var out []string
		var walk func(st *types.Struct)
		walk = func(st *types.Struct) {
			for i := 0; i < st.NumFields(); i++ {
				f := st.Field(i)
				tag := reflect.StructTag(st.Tag(i)).Get("json")
				if f.Embedded() && tag == "" {
					ft := f.Type()
					if p, ok := ft.Underlying().(*types.Pointer); ok {
						ft = p.Elem()
					}
					if es, ok := ft.Underlying().(*types.Struct); ok {
						walk(es)
						continue
					}
				}
				if !f.Exported() {
					continue
				}
				key, opts := tag, ""
				if i := strings.Index(tag, ","); i >= 0 {
					key, opts = tag[:i], tag[i+1:]
				}
				if key == "" {
					key = f.Name()
				}
				out = append(out, f.Name()+"|"+key+"|"+opts+"|"+types.TypeString(f.Type(), func(p *types.Package) string { return p.Name() }))
			}
		}
		walk(st)
		return e.strSliceVal(out)
	case "JSONEncoded":
		vals := e.ghost["json.encoded"]
		arr := &ArrayV{E: append([]Value{}, vals...)}
		return &SliceV{O: e.newObj(arr, "jsonencoded"), Len: cbv(uint64(len(vals)), 64), Cap: len(vals)}
	case "EnvLog":
		vals := e.ghost["env"]
		arr := &ArrayV{E: append([]Value{}, vals...)}
		return &SliceV{O: e.newObj(arr, "envlog"), Len: cbv(uint64(len(vals)), 64), Cap: len(vals)}
	case "Tag":
		nm, _ := concStr(args[1])
		if iv, ok := args[0].(*IfaceV); ok && iv.T != nil {
			if p, ok := iv.V.(*PtrV); ok && p.O != nil {
				p.O.Name = nm
			}
		}
		return nil
	case "SetMapOrder":
		o, _ := concStr(args[0])
		e.cfg.MapOrder = o
		return nil
	case "LocksHeld":
		n := 0
		for _, d := range e.lockDepth {
			if d > 0 {
				n += d
			}
		}
		return cbv(uint64(n), 64)
	case "RegexpOver":
		sl := args[0].(*SliceV)
		n, _ := concInt(sl.Len)
		e.nfresh++
		sr := &symRegexp{id: fmt.Sprintf("nd!%d", e.nfresh)}
		for i := 0; i < int(n); i++ {
			c, ok := concStr(e.sliceElem(sl, i))
			if !ok {
				e.unsupported("zz.RegexpOver with symbolic candidate")
			}
			sr.cands = append(sr.cands, c)
			e.declareInput(fmt.Sprintf("%s_m%d", sr.id, i), "Bool")
		}
		e.recNondet("regexp", sr.id, int(n))
		return &PtrV{O: e.newObj(&OpaqueV{N: sr}, "regexp:arbitrary")}
	case "ParamStr":
		nm, _ := concStr(args[0])
		def, _ := concStr(args[1])
		v := def
		if s, ok := e.cfg.StrParams[nm]; ok {
			v = s
		}
		e.nondet = append(e.nondet, NondetRec{Kind: "paramstr", Sym: nm, Val: v})
		return cstr(v)
	case "FmtBigArgs":
		// the *big.Int arguments of the formatting call that produced this string
		sv := args[0].(*StrV)
		var out []Value
		for _, a := range sv.Args {
			if iv, ok := a.(*IfaceV); ok && iv.T != nil {
				if p, ok := iv.V.(*PtrV); ok && p.O != nil {
					if _, isBig := e.force(e.rawLoad(p)).(*BigV); isBig {
						out = append(out, p)
					}
				}
			}
		}
		if sv.C != nil {
			for _, m := range regexp.MustCompile(`-?[0-9]+`).FindAllString(*sv.C, -1) {
				n, _ := new(big.Int).SetString(m, 10)
				out = append(out, e.newBig(cbig(n)))
			}
		}
		arr := &ArrayV{E: out}
		return &SliceV{O: e.newObj(arr, "fmtargs"), Len: cbv(uint64(len(out)), 64), Cap: len(out)}
	case "Matches":
		sv := args[0].(*StrV)
		pat, ok := concStr(args[1])
		if !ok {
			e.unsupported("zz.Matches with symbolic pattern")
		}
		if sv.C != nil {
			re, err := regexp.Compile(pat)
			if err != nil {
				e.unsupported("zz.Matches: bad pattern")
			}
			return cbool(re.MatchString(*sv.C))
		}
		t, ok := regexToSMT(pat)
		if !ok {
			e.unsupported("zz.Matches: pattern %q has no SMT counterpart", pat)
		}
		return &BoolV{T: "(str.in_re " + sv.T + " " + t + ")"}
	case "MonitorStart":
		e.monitorOn = true
		e.monitorEpoch = e.objSeq
		return nil
	case "MonitorStop":
		e.monitorOn = false
		return nil
	case "WriteCount":
		if os.Getenv("SYMGO_DEBUGWRITES") != "" {
			for _, w := range e.writes {
				fmt.Fprintf(os.Stderr, "write: %s at %s in %s\n", w.Tag, w.Site, w.Fn)
			}
		}
		return cbv(uint64(len(e.writes)), 64)
	case "Note":
		k, _ := concStr(args[0])
		v, _ := concStr(args[1])
		e.notes[k] = v
		return nil
	case "SetBound":
		k, _ := concStr(args[0])
		v, _ := concInt(args[1])
		e.cfg.Bounds[k] = int(v)
		return nil
	case "IsConcrete":
		switch x := args[0].(*IfaceV).V.(type) {
		case *BV:
			return cbool(x.C != nil)
		case *StrV:
			return cbool(x.C != nil)
		case *BoolV:
			return cbool(x.C != nil)
		}
		return cbool(false)
	case "Replaying":
		return cbool(false)
	}
	if len(fn.Blocks) > 0 {
		// plain Go helper defined in zzverif: run it
		return e.runBody(fn, args)
	}
	e.unsupported("unknown zzverif intrinsic %s", name)
	return nil
}

func (e *Exec) runBody(fn *ssa.Function, args []Value) Value {
	e.depth++
	defer func() { e.depth-- }()
	fr := &frame{fn: fn, locals: map[ssa.Value]Value{}, symVisits: map[*ssa.BasicBlock]int{}}
	for i, p := range fn.Params {
		fr.locals[p] = args[i]
	}
	return e.runFrom(fr, fn.Blocks[0], true)
}

// branchAssume adds c to the path condition; false if that makes it infeasible.
func (e *Exec) branchAssume(c *BoolV) bool {
	if e.pos < len(e.script) {
		// replaying: the recorded decision says whether the assumption held
		d := e.script[e.pos]
		e.pos++
		if !d {
			return false
		}
		e.assumeBranch(c.T)
		return true
	}
	if e.cfg.LazyFeas {
		e.lazyUnchecked = true
		e.script = append(e.script, true)
		e.pos++
		e.assumeBranch(c.T)
		return true
	}
	r := e.checkWith(c.T)
	if r == "unsat" {
		e.script = append(e.script, false)
		e.pos++
		return false
	}
	e.script = append(e.script, true)
	e.pos++
	e.assumeBranch(c.T)
	return true
}

func (e *Exec) assertion(c *BoolV, msg string) {
	frontier := e.pos >= len(e.script)
	if frontier && !e.cfg.Deadline.IsZero() && time.Now().After(e.cfg.Deadline) {
		// a long run of undecided assertions on one path must not outlive the job's budget
		panic(pathEnd{"deadline", "time budget exhausted"})
	}
	if c.C != nil {
		if *c.C {
			if frontier {
				e.res.Asserts++
				e.res.AssertsOK++
			}
			return
		}
		if frontier {
			// the assertion is false on this path: a violation iff the path is feasible
			switch r := e.s.Check(); r {
			case "unsat":
				e.reviveSolver()
				panic(pathEnd{"infeasible", "path condition unsatisfiable (found at assertion)"})
			case "sat":
				e.res.Asserts++
				names := make([]string, len(e.syms))
				for i, s := range e.syms {
					names[i] = s.Name
				}
				m := map[string]string{}
				if len(names) > 0 {
					m = e.s.GetValues(names)
				}
				e.res.Fails = append(e.res.Fails, AssertFail{Msg: msg, Result: "concrete", Model: m, Nondet: e.nondetWithModel(m), Site: e.curSite, Note: e.notes["recovered"]})
			default:
				e.reviveSolver()
				e.res.Asserts++
				e.res.Inconclusive = append(e.res.Inconclusive, AssertFail{Msg: msg, Result: "unknown (feasibility of a path on which the assertion is false)", Site: e.curSite})
			}
		}
		panic(pathEnd{"assert-failed", msg})
	}
	if !frontier {
		// re-execution of a prefix: this assertion was decided when the prefix was first explored
		d := e.script[e.pos]
		e.pos++
		if !d {
			panic(pathEnd{"assert-failed", msg})
		}
		e.assume(c.T)
		return
	}
	e.res.Asserts++
	e.send("(push 1)")
	e.send("(assert (not " + c.T + "))")
	r := e.s.Check()
	if e.s.Dead() {
		r = "unknown"
		e.reviveSolver()
		e.send("(push 1)")
	}
	switch r {
	case "unsat":
		e.res.AssertsOK++
		e.send("(pop 1)")
	case "sat":
		names := make([]string, len(e.syms))
		for i, s := range e.syms {
			names[i] = s.Name
		}
		m := e.s.GetValues(names)
		e.send("(pop 1)")
		e.res.Fails = append(e.res.Fails, AssertFail{Msg: msg, Result: "sat", Model: m, Nondet: e.nondetWithModel(m), Site: e.curSite, Note: e.notes["recovered"]})
	default:
		e.send("(pop 1)")
		e.res.Inconclusive = append(e.res.Inconclusive, AssertFail{Msg: msg, Result: r, Site: e.curSite})
	}
	// continue under the assumption that the assertion holds (no cascades)
	ok := true
	if r != "unsat" {
		ok = e.checkWith(c.T) != "unsat"
	}
	e.script = append(e.script, ok)
	e.pos++
	if !ok {
		panic(pathEnd{"assert-failed", msg})
	}
	e.assume(c.T)
}

func isZZ(fn *ssa.Function) bool {
	return fn.Pkg != nil && strings.HasPrefix(fn.Pkg.Pkg.Path(), zzPath)
}

var _ = types.Typ

// namedConsts lists the values of the package-level string constants of a named type.
func (e *Exec) namedConsts(pkgPath, typeName string) []string {
	p := e.findPkg(pkgPath)
	if p == nil {
		e.unsupported("package %s not loaded", pkgPath)
	}
	var names []string
	for n := range p.Members {
		names = append(names, n)
	}
	sortStrings(names)
	var out []string
	for _, n := range names {
		nc, ok := p.Members[n].(*ssa.NamedConst)
		if !ok {
			continue
		}
		if nt, ok := nc.Type().(*types.Named); ok && nt.Obj().Name() == typeName && nc.Value.Value != nil {
			if s, ok := concStr(e.constVal(nc.Value)); ok {
				out = append(out, s)
			}
		}
	}
	return out
}
