package main

import (
	"flag"
	"fmt"
	"os"
	"sort"
	"strconv"
	"strings"
	"time"
)

func main() {
	if len(os.Args) < 2 {
		fmt.Fprintln(os.Stderr, "usage: symgo run|check ...")
		os.Exit(2)
	}
	switch os.Args[1] {
	case "run":
		cmdRun(os.Args[2:])
	case "check":
		os.Exit(cmdCheck(os.Args[2:]))
	default:
		fmt.Fprintln(os.Stderr, "unknown command", os.Args[1])
		os.Exit(2)
	}
}

// symgo run -pkg <import path> -func F1,F2 [-init pkg] : explore harness functions and print a summary
func cmdRun(args []string) {
	fs := flag.NewFlagSet("run", flag.ExitOnError)
	pkg := fs.String("pkg", zlintMod+"/lint", "package containing the harness function")
	funcs := fs.String("func", "", "comma separated harness functions")
	initPkg := fs.String("init", "", "package whose init chain is executed first (default: the harness package)")
	solver := fs.String("solver", "z3-new", "z3-new | z3 | cvc5")
	unwind := fs.Int("unwind", 12, "unwind limit")
	list := fs.Int("list", 2, "list bound")
	bytesB := fs.Int("bytes", 8, "byte slice bound")
	verbose := fs.Bool("v", false, "print paths")
	smtlog := fs.String("smtlog", "", "write solver input to file")
	ua := fs.Bool("unwind-assume", false, "prune instead of fail at unwind limit")
	merge := fs.String("merge", "", "comma separated functions to summarise")
	lazy := fs.Bool("lazy", false, "lazy feasibility")
	alt := fs.String("alt", "", "second-opinion solver")
	tmo := fs.Int("tmo", 2000, "primary solver time limit per query in ms when -alt is given")
	forks := fs.Bool("forks", false, "print the sites with most forks")
	autouf := fs.Bool("autouf", false, "sweep mode: unknown callees become uninterpreted functions, scope predicates stubbed")
	deadline := fs.Duration("deadline", 0, "stop exploring after this long")
	params := fs.String("params", "", "comma separated name=value harness parameters (integers; name:=value for strings)")
	fs.Parse(args)
	ld, err := loadProgram([]string{*pkg, zlintMod + "/zzverif"}, nil)
	if err != nil {
		fmt.Fprintln(os.Stderr, err)
		os.Exit(2)
	}
	fmt.Println("load+build", ld.LoadTime)
	p := ld.Pkg(*pkg)
	cfg := defaultConfig()
	cfg.Solver, cfg.Unwind, cfg.ListBound, cfg.ByteBound, cfg.UnwindAssume = *solver, *unwind, *list, *bytesB, *ua
	cfg.LazyFeas = *lazy
	cfg.AutoUF = *autouf
	if *autouf {
		scopeStubs(cfg)
	}
	if *deadline > 0 {
		cfg.Deadline = time.Now().Add(*deadline)
	}
	for _, kv := range strings.Split(*params, ",") {
		if i := strings.Index(kv, ":="); i > 0 {
			cfg.StrParams[kv[:i]] = kv[i+2:]
		} else if i := strings.Index(kv, "="); i > 0 {
			n, _ := strconv.Atoi(kv[i+1:])
			cfg.Bounds["param:"+kv[:i]] = n
		}
	}
	for _, m := range strings.Split(*merge, ",") {
		if m != "" {
			cfg.Merge[m] = true
		}
	}
	if *alt != "" {
		cfg.TimeoutMs, cfg.AltSolver, cfg.AltTimeoutMs = *tmo, *alt, 8000
	}
	s := NewSolver(cfg.Solver, cfg.TimeoutMs, *smtlog)
	s.AltName, s.AltTimeout = cfg.AltSolver, cfg.AltTimeoutMs
	defer s.Close()
	e := NewExec(ld.Prog, cfg)
	e.s = s
	ip := p
	if *initPkg != "" {
		ip = ld.Pkg(*initPkg)
	}
	e.runInit(ip)
	e.FinishInit()
	for k, v := range e.poisoned {
		if *verbose {
			fmt.Printf("   poison %d %s\n", v, k)
		}
	}
	for _, f := range strings.Split(*funcs, ",") {
		fn := p.Func(f)
		if fn == nil {
			fmt.Fprintln(os.Stderr, "no function", f)
			os.Exit(2)
		}
		res := e.Run(fn)
		fmt.Print(res.Summary())
		if *forks {
			type kv struct {
				k string
				v int
			}
			var l []kv
			for k, v := range res.ForkSites {
				l = append(l, kv{k, v})
			}
			sort.Slice(l, func(i, j int) bool { return l[i].v > l[j].v })
			for i, x := range l {
				if i >= 15 {
					break
				}
				fmt.Printf("   fork %6d %s\n", x.v, x.k)
			}
		}
		if *verbose {
			for i, pr := range res.Paths {
				fmt.Printf("   path %d: %s %s @%s covers=%v stubs=%v\n", i, pr.End, pr.Msg, pr.Site, pr.Covers, pr.Stubs)
			}
		}
	}
}
