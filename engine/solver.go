package main

// Long-lived SMT solver processes (z3-new / z3 / cvc5) driven over stdin/stdout
// with push/pop.  Any "(error" line makes the answer inconclusive.

import (
	"bufio"
	"fmt"
	"io"
	"math/big"
	"os"
	"os/exec"
	"strconv"
	"strings"
	"time"
)

type Solver struct {
	Name    string
	cmd     *exec.Cmd
	in      io.WriteCloser
	lines   chan string
	Kills   int
	Queries int
	Dur     time.Duration
	log     *os.File
	dead    bool
	Errors  int
	timeout int // ms
	last    string
	// second opinion: when the primary answers unknown (time limit, error, killed), the same query -
	// the whole assertion stack, tracked in frames - is put to another solver (lazily started)
	AltName    string
	AltTimeout int
	alt        *Solver
	altPending bool // alt holds a pushed copy of the stack that must be popped before the next command
	altSat     bool // the last sat answer came from alt: models are read from it
	frames     [][]string
	AltQueries int
	AltDecided int
	Swaps      int
	altStreak  int // consecutive queries the primary left unknown and alt decided
	AltDur     time.Duration
}

func solverArgs(name string, timeoutMs int) (string, []string, []string) {
	switch name {
	case "cvc5":
		return "cvc5", []string{"--incremental", "--lang=smt2", "--produce-models", "--strings-exp", fmt.Sprintf("--tlimit-per=%d", timeoutMs)}, []string{"(set-logic ALL)"}
	case "z3":
		return "z3", []string{"-in", fmt.Sprintf("-t:%d", timeoutMs)}, []string{"(set-option :produce-models true)"}
	default:
		return "z3-new", []string{"-in", fmt.Sprintf("-t:%d", timeoutMs)}, []string{"(set-option :produce-models true)"}
	}
}

func NewSolver(name string, timeoutMs int, logPath string) *Solver {
	s := &Solver{Name: name, timeout: timeoutMs, frames: [][]string{nil}}
	s.start()
	if logPath != "" {
		s.log, _ = os.Create(logPath)
	}
	return s
}

// start launches the solver process named s.Name and sends its preamble.
func (s *Solver) start() {
	bin, args, pre := solverArgs(s.Name, s.timeout)
	c := exec.Command(bin, args...)
	in, _ := c.StdinPipe()
	out, _ := c.StdoutPipe()
	c.Stderr = nil
	if err := c.Start(); err != nil {
		panic(fmt.Sprintf("cannot start solver %s: %v", bin, err))
	}
	lines := make(chan string, 256)
	s.cmd, s.in, s.lines, s.dead = c, in, lines, false
	go func() {
		rd := bufio.NewReaderSize(out, 1<<16)
		for {
			line, err := rd.ReadString('\n')
			if line != "" {
				lines <- line
			}
			if err != nil {
				close(lines)
				return
			}
		}
	}()
	for _, l := range pre {
		s.send1(l)
	}
}

// swap makes the second-opinion solver the primary one (and vice versa): used when the primary keeps
// answering unknown on this job's queries while the other decides them.  The assertion stack is replayed.
func (s *Solver) swap() {
	s.dropAlt()
	if s.alt != nil {
		s.alt.Close()
		s.alt = nil
	}
	s.stop()
	s.Name, s.AltName = s.AltName, s.Name
	s.timeout, s.AltTimeout = s.AltTimeout, s.timeout
	s.Swaps++
	s.start()
	for i, fr := range s.frames {
		if i > 0 {
			s.send1("(push 1)")
		}
		for _, l := range fr {
			s.send1(l)
		}
	}
}

func (s *Solver) stop() {
	if s.in != nil {
		s.in.Close()
	}
	if s.cmd != nil {
		cmd := s.cmd
		done := make(chan struct{})
		go func() { cmd.Wait(); close(done) }()
		select {
		case <-done:
		case <-time.After(300 * time.Millisecond):
			cmd.Process.Kill()
		}
	}
}

var slowQ = func() time.Duration {
	f, _ := strconv.ParseFloat(os.Getenv("SYMGO_SLOWQ"), 64)
	return time.Duration(f * float64(time.Second))
}()

func (s *Solver) Send(l string) {
	s.dropAlt()
	switch {
	case l == "(push 1)":
		s.frames = append(s.frames, nil)
	case l == "(pop 1)":
		if len(s.frames) > 1 {
			s.frames = s.frames[:len(s.frames)-1]
		}
	case strings.HasPrefix(l, "(check-sat"), strings.HasPrefix(l, "(get-value"), strings.HasPrefix(l, "(set-option"), strings.HasPrefix(l, "(set-logic"):
	default:
		s.frames[len(s.frames)-1] = append(s.frames[len(s.frames)-1], l)
	}
	s.send1(l)
}

func (s *Solver) dropAlt() {
	if s.altPending && s.alt != nil {
		s.alt.send1("(pop 1)")
	}
	s.altPending, s.altSat = false, false
}

func (s *Solver) send1(l string) {
	if s.dead {
		return
	}
	if slowQ > 0 && !strings.HasPrefix(l, "(check-sat") {
		s.last = l
	}
	if _, err := io.WriteString(s.in, l+"\n"); err != nil {
		s.dead = true
	}
	if s.log != nil {
		fmt.Fprintln(s.log, l)
	}
}

func (s *Solver) Close() {
	if s.alt != nil {
		s.alt.Close()
		s.alt = nil
	}
	s.stop()
	if s.log != nil {
		s.log.Close()
	}
}

// readLine waits for one line of solver output; the watchdog kills a solver
// that ignores its own time limit (observed with z3's string solver).
func (s *Solver) readLine(limit time.Duration) (string, bool) {
	if s.dead {
		return "", false
	}
	select {
	case l, ok := <-s.lines:
		if !ok {
			s.dead = true
			return "", false
		}
		return l, true
	case <-time.After(limit):
		s.Kills++
		s.dead = true
		if s.cmd != nil && s.cmd.Process != nil {
			s.cmd.Process.Kill()
		}
		return "", false
	}
}

func (s *Solver) limit() time.Duration {
	if s.AltName != "" {
		return time.Duration(s.timeout)*time.Millisecond + 2*time.Second
	}
	return time.Duration(s.timeout)*time.Millisecond + 10*time.Second
}

// Check returns "sat", "unsat" or "unknown" (timeouts, errors, dead solver).
func (s *Solver) Check() string {
	if s.AltName != "" {
		s.dropAlt()
	}
	r := s.check1()
	if r != "unknown" || s.AltName == "" {
		s.altStreak = 0
		return r
	}
	if s.altStreak >= 2 && s.Swaps < 3 {
		// the primary keeps failing where the other solver succeeds: change roles for the rest of the job
		s.altStreak = 0
		s.swap()
		if r = s.check1(); r != "unknown" {
			return r
		}
	}
	// second opinion
	t0 := time.Now()
	if s.alt == nil || s.alt.dead {
		if s.alt != nil {
			s.alt.Close()
		}
		s.alt = NewSolver(s.AltName, s.AltTimeout, "")
	}
	a := s.alt
	a.send1("(push 1)")
	for _, fr := range s.frames {
		for _, l := range fr {
			a.send1(l)
		}
	}
	s.altPending = true
	s.AltQueries++
	r2 := a.check1()
	s.AltDur += time.Since(t0)
	s.Dur += time.Since(t0)
	if r2 != "unknown" {
		s.AltDecided++
		s.altStreak++
	} else {
		s.altStreak = 0
	}
	s.altSat = r2 == "sat"
	return r2
}

func (s *Solver) check1() string {
	t0 := time.Now()
	s.send1("(check-sat)")
	s.Queries++
	defer func() {
		d := time.Since(t0)
		s.Dur += d
		if slowQ > 0 && d > slowQ {
			fmt.Fprintf(os.Stderr, "slow query %.2fs after: %.300s\n", d.Seconds(), s.last)
		}
	}()
	sawError := false
	for {
		line, ok := s.readLine(s.limit())
		if !ok {
			return "unknown"
		}
		line = strings.TrimSpace(line)
		switch {
		case line == "sat", line == "unsat":
			if sawError {
				return "unknown"
			}
			return line
		case line == "unknown", line == "timeout":
			return "unknown"
		case strings.HasPrefix(line, "(error"):
			s.Errors++
			sawError = true
			if s.log != nil {
				fmt.Fprintln(s.log, "; ERROR: "+line)
			}
			if os.Getenv("SYMGO_DEBUG") != "" {
				fmt.Fprintln(os.Stderr, "solver error:", line)
			}
		}
	}
}

// readSexp reads one balanced s-expression (possibly spanning lines).
func (s *Solver) readSexp() string {
	var sb strings.Builder
	depth := 0
	inStr := false
	for {
		line, ok := s.readLine(s.limit())
		if !ok {
			return sb.String()
		}
		sb.WriteString(line)
		for _, r := range line {
			if inStr {
				if r == '"' {
					inStr = false
				}
				continue
			}
			switch r {
			case '"':
				inStr = true
			case '(':
				depth++
			case ')':
				depth--
			}
		}
		if depth <= 0 && strings.TrimSpace(sb.String()) != "" {
			return strings.TrimSpace(sb.String())
		}
	}
}

// GetValues asks for the values of the given terms after a sat answer.
func (s *Solver) GetValues(terms []string) map[string]string {
	if s.altSat && s.alt != nil {
		return s.alt.GetValues(terms)
	}
	res := map[string]string{}
	const chunk = 200
	for i := 0; i < len(terms); i += chunk {
		j := i + chunk
		if j > len(terms) {
			j = len(terms)
		}
		s.send1("(get-value (" + strings.Join(terms[i:j], " ") + "))")
		txt := s.readSexp()
		if strings.HasPrefix(txt, "(error") {
			s.Errors++
			continue
		}
		for _, kv := range parsePairs(txt) {
			res[kv[0]] = kv[1]
		}
	}
	return res
}

// --- tiny s-expression parser for get-value answers ---

type sx struct {
	atom string
	list []*sx
	isL  bool
}

func parseSx(s string) *sx {
	pos := 0
	var parse func() *sx
	skip := func() {
		for pos < len(s) && (s[pos] == ' ' || s[pos] == '\n' || s[pos] == '\t' || s[pos] == '\r') {
			pos++
		}
	}
	parse = func() *sx {
		skip()
		if pos >= len(s) {
			return nil
		}
		if s[pos] == '(' {
			pos++
			n := &sx{isL: true}
			for {
				skip()
				if pos >= len(s) {
					return n
				}
				if s[pos] == ')' {
					pos++
					return n
				}
				n.list = append(n.list, parse())
			}
		}
		if s[pos] == '"' {
			st := pos
			pos++
			for pos < len(s) {
				if s[pos] == '"' {
					if pos+1 < len(s) && s[pos+1] == '"' {
						pos += 2
						continue
					}
					pos++
					break
				}
				pos++
			}
			return &sx{atom: s[st:pos]}
		}
		if s[pos] == '|' {
			st := pos
			pos++
			for pos < len(s) && s[pos] != '|' {
				pos++
			}
			pos++
			return &sx{atom: s[st:pos]}
		}
		st := pos
		for pos < len(s) && !strings.ContainsRune(" \n\t\r()", rune(s[pos])) {
			pos++
		}
		return &sx{atom: s[st:pos]}
	}
	return parse()
}

func (x *sx) String() string {
	if x == nil {
		return ""
	}
	if !x.isL {
		return x.atom
	}
	parts := make([]string, len(x.list))
	for i, c := range x.list {
		parts[i] = c.String()
	}
	return "(" + strings.Join(parts, " ") + ")"
}

func parsePairs(txt string) [][2]string {
	root := parseSx(txt)
	var out [][2]string
	if root == nil || !root.isL {
		return out
	}
	for _, p := range root.list {
		if p != nil && p.isL && len(p.list) == 2 {
			out = append(out, [2]string{p.list[0].String(), p.list[1].String()})
		}
	}
	return out
}

// --- model value decoding ---

func modelBV(v string) (uint64, bool) {
	if strings.HasPrefix(v, "#x") {
		n, err := strconv.ParseUint(v[2:], 16, 64)
		return n, err == nil
	}
	if strings.HasPrefix(v, "#b") {
		n, err := strconv.ParseUint(v[2:], 2, 64)
		return n, err == nil
	}
	if strings.HasPrefix(v, "(_ bv") {
		f := strings.Fields(strings.Trim(v, "()"))
		if len(f) >= 2 {
			n, err := strconv.ParseUint(strings.TrimPrefix(f[1], "bv"), 10, 64)
			return n, err == nil
		}
	}
	return 0, false
}

func modelInt(v string) (*big.Int, bool) {
	x := parseSx(v)
	if x == nil {
		return nil, false
	}
	if !x.isL {
		n, ok := new(big.Int).SetString(x.atom, 10)
		return n, ok
	}
	if len(x.list) == 2 && x.list[0].atom == "-" && !x.list[1].isL {
		n, ok := new(big.Int).SetString(x.list[1].atom, 10)
		if ok {
			n.Neg(n)
		}
		return n, ok
	}
	return nil, false
}

// modelString decodes an SMT-LIB string literal into Go bytes (code points
// above 255 are clipped to '?', they are excluded by the byte-range constraint
// every symbolic string carries).
func modelString(v string) (string, bool) {
	if len(v) < 2 || v[0] != '"' || v[len(v)-1] != '"' {
		return "", false
	}
	body := v[1 : len(v)-1]
	var out []byte
	for i := 0; i < len(body); i++ {
		c := body[i]
		if c == '"' && i+1 < len(body) && body[i+1] == '"' {
			out = append(out, '"')
			i++
			continue
		}
		if c == '\\' && i+1 < len(body) && body[i+1] == 'u' {
			// \u{X..} or \uXXXX
			if i+2 < len(body) && body[i+2] == '{' {
				j := strings.IndexByte(body[i+3:], '}')
				if j >= 0 {
					n, err := strconv.ParseUint(body[i+3:i+3+j], 16, 32)
					if err == nil {
						if n > 255 {
							out = append(out, '?')
						} else {
							out = append(out, byte(n))
						}
						i = i + 3 + j
						continue
					}
				}
			} else if i+5 < len(body) {
				n, err := strconv.ParseUint(body[i+2:i+6], 16, 32)
				if err == nil {
					if n > 255 {
						out = append(out, '?')
					} else {
						out = append(out, byte(n))
					}
					i += 5
					continue
				}
			}
		}
		if c == '\\' && i+1 < len(body) && body[i+1] == 'x' && i+3 < len(body) {
			n, err := strconv.ParseUint(body[i+2:i+4], 16, 32)
			if err == nil {
				out = append(out, byte(n))
				i += 3
				continue
			}
		}
		out = append(out, c)
	}
	return string(out), true
}

func (s *Solver) Dead() bool { return s.dead }
