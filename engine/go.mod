module symgo

go 1.23.0

toolchain go1.23.5

require golang.org/x/tools v0.29.0

require (
	golang.org/x/mod v0.22.0 // indirect
	golang.org/x/sync v0.12.0 // indirect
)

require github.com/pelletier/go-toml v1.9.5

require github.com/weppos/publicsuffix-go v0.40.3-0.20250127173806-e489a31678ca

require (
	golang.org/x/net v0.38.0
	golang.org/x/text v0.23.0
)

replace golang.org/x/sync => golang.org/x/sync v0.10.0
