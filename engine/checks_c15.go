package main

func init() {
	checks["C15"] = func(c *Check) {
		c.Technique = "symbolic execution of go/ssa + SMT (z3) of cmd/zlint doLint under nondeterministic environment stubs (file bytes, PEM/base64 decoding, both parsers, the library entry points, JSON encoding, standard output, log.Fatal) with a ghost call log, and of formattedoutput.newRT on result sets with symbolic statuses"
		c.Assume("REDUCED CLAIM: the process boundary (flag parsing, opening files, the suffix-based format override, the real exit status, table formatting) is outside; the stubs return any value of their contract")
		for _, f := range []string{"pem", "der", "base64", "unknown"} {
			f := f
			cov := []string{"fails closed", "prints results", "certificate"}
			if f == "pem" {
				cov = append(cov, "CRL")
			}
			if f == "unknown" {
				cov = []string{"fails closed"}
			}
			c.Add(&Job{Label: "DoLint/format=" + f, Pkg: zlintMod + "/cmd/zlint", Func: "VerifC15DoLint", MustCover: cov, NoReplay: true,
				Tune: func(cf *Config) { cf.CLIEnv = true; cf.StrParams["c15.format"] = f; cf.AutoUF = true }})
		}
		c.Add(&Job{Pkg: zlintMod + "/cmd/zlint", Func: "VerifC15SetLints", MustCover: []string{"unknown source", "rejected selection", "no selection", "selection"}, NoReplay: true,
			Tune: func(cf *Config) { cf.CLIEnv = true; cf.AutoUF = true; cf.Unwind = 2000 }})
		k := 3
		if !c.Quick() {
			k = 4
		}
		c.Add(&Job{Pkg: zlintMod + "/formattedoutput", Func: "VerifC15Counts", MustCover: []string{"summary"}, Tune: func(cf *Config) { cf.Bounds["param:c15.k"] = k }})
		// history: an earlier table (one result of arbitrary status, either flag) built in the same process
		c.Add(&Job{Label: "VerifC15Counts/after an earlier table", Pkg: zlintMod + "/formattedoutput", Func: "VerifC15Counts", MustCover: []string{"summary", "after an earlier table"},
			Tune: func(cf *Config) { cf.Bounds["param:c15.k"] = k - 1; cf.Bounds["param:c15.hist"] = 1 }})
	}
}
