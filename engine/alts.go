package main

// Finite-choice strings: a symbolic string known to be one of finitely many
// concrete strings under mutually exclusive conditions (the result of looking a
// symbolic key up in a table with concrete keys and values).  Native functions
// are lifted over the choices instead of being replaced by uninterpreted stubs.

import (
	"strings"
)

// withAlts annotates the string leaves of merged (an ite-tree over vals under
// conds) with their alternatives.
func (e *Exec) withAlts(merged Value, conds []*BoolV, vals []Value, zero Value) Value {
	switch x := merged.(type) {
	case *StrV:
		if x.C != nil {
			return x
		}
		z, ok := concStr(zero)
		if !ok {
			return x
		}
		alts := make([]StrAlt, 0, len(vals))
		for i, v := range vals {
			s, ok := concStr(v)
			if !ok {
				return x
			}
			if conds[i].C != nil {
				if *conds[i].C {
					return cstr(s)
				}
				continue
			}
			alts = append(alts, StrAlt{Cond: conds[i].T, S: s})
		}
		return &StrV{T: x.T, Alts: alts, Else: z}
	case *StructV:
		n := &StructV{F: make([]Value, len(x.F))}
		for fi := range x.F {
			sub := make([]Value, len(vals))
			for i, v := range vals {
				sv, ok := v.(*StructV)
				if !ok {
					return merged
				}
				sub[i] = e.force(sv.F[fi])
			}
			zs, ok := zero.(*StructV)
			if !ok {
				return merged
			}
			n.F[fi] = e.withAlts(x.F[fi], conds, sub, e.force(zs.F[fi]))
		}
		return n
	}
	return merged
}

// altsBool lifts a predicate on concrete strings over a finite-choice string.
func altsBool(s *StrV, f func(string) bool) *BoolV {
	var yes, no []string
	for _, a := range s.Alts {
		if f(a.S) {
			yes = append(yes, a.Cond)
		} else {
			no = append(no, a.Cond)
		}
	}
	disj := func(l []string) string {
		switch len(l) {
		case 0:
			return "false"
		case 1:
			return l[0]
		}
		return "(or " + strings.Join(l, " ") + ")"
	}
	if f(s.Else) {
		if len(no) == 0 {
			return cbool(true)
		}
		return &BoolV{T: "(not " + disj(no) + ")"}
	}
	if len(yes) == 0 {
		return cbool(false)
	}
	return &BoolV{T: disj(yes)}
}

// altsBV lifts a function from concrete strings to 64-bit values.
func altsBV(s *StrV, f func(string) uint64) *BV {
	acc := cbv(f(s.Else), 64)
	// group alternatives by result to keep the term small
	groups := map[uint64][]string{}
	var order []uint64
	for _, a := range s.Alts {
		v := f(a.S)
		if _, ok := groups[v]; !ok {
			order = append(order, v)
		}
		groups[v] = append(groups[v], a.Cond)
	}
	for _, v := range order {
		cs := groups[v]
		c := cs[0]
		if len(cs) > 1 {
			c = "(or " + strings.Join(cs, " ") + ")"
		}
		acc = bvIte(&BoolV{T: c}, cbv(v, 64), acc)
	}
	return acc
}
