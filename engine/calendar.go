package main

// Calendar abstraction (C03, C18): code that re-derives an instant from its
// calendar fields - time.Date(t.Year(), t.Month(), t.Day(), t.Hour(), ...) - is
// not executed through the civil-from-days arithmetic of package time (64-bit
// divisions by 146097, 36524, 1461, 365 that no available solver handles).
// Instead the absolute second count of a symbolic instant is split into a day
// number and a second of the day (abs = day*86400 + sod, multiplication by a
// constant only), year / month / day / yday are uninterpreted functions of the
// day number, hour / minute / second fresh symbols tied to sod by
// sod = h*3600 + m*60 + s, and time.Date is the inverse: its day number is an
// uninterpreted function of (year, month, day) with the axiom
// days(Y(n), M(n), D(n)) = n instantiated for every day number on the path.
// Everything asserted is true of the real calendar, so a proof holds for it;
// a counterexample is replayed natively like any other.

import (
	"fmt"
	"go/constant"
	"go/types"

	"golang.org/x/tools/go/ssa"
)

type calSplit struct {
	day, sod, h, m, s string
}

type calTriple struct{ y, m, d string }

func (e *Exec) calSplitOf(abs *BV) *calSplit {
	key := "cal#" + abs.T
	if v, ok := e.lazyMemo[key]; ok {
		return v.(*OpaqueV).N.(*calSplit)
	}
	e.stub("model:calendar(day number / second of day; year, month, day uninterpreted functions of the day number)")
	c := &calSplit{day: e.fresh("calday", "(_ BitVec 64)"), sod: e.fresh("calsod", "(_ BitVec 64)"), h: e.fresh("calh", "(_ BitVec 64)"), m: e.fresh("calm", "(_ BitVec 64)"), s: e.fresh("cals", "(_ BitVec 64)")}
	e.assume(fmt.Sprintf("(= %s (bvadd (bvmul %s (_ bv86400 64)) %s))", abs.T, c.day, c.sod))
	e.assume(fmt.Sprintf("(and (bvult %s (_ bv86400 64)) (bvule %s (_ bv213503982334601 64)))", c.sod, c.day))
	e.assume(fmt.Sprintf("(= %s (bvadd (bvmul %s (_ bv3600 64)) (bvmul %s (_ bv60 64)) %s))", c.sod, c.h, c.m, c.s))
	e.assume(fmt.Sprintf("(and (bvult %s (_ bv24 64)) (bvult %s (_ bv60 64)) (bvult %s (_ bv60 64)))", c.h, c.m, c.s))
	e.calDeclare()
	e.assume(fmt.Sprintf("(and (bvuge (cal_M %s) (_ bv1 64)) (bvule (cal_M %s) (_ bv12 64)) (bvuge (cal_D %s) (_ bv1 64)) (bvule (cal_D %s) (_ bv31 64)) (bvult (cal_YD %s) (_ bv366 64)))", c.day, c.day, c.day, c.day, c.day))
	e.lazyMemo[key] = &OpaqueV{N: c}
	// remember which terms are fields of this split, so that time.Date applied to exactly these fields can
	// reuse the day number / second of day instead of making the solver reason about the multiplications
	for role, t := range map[string]string{"Y": "(cal_Y " + c.day + ")", "M": "(cal_M " + c.day + ")", "D": "(cal_D " + c.day + ")", "h": c.h, "m": c.m, "s": c.s} {
		e.lazyMemo["calfield#"+t] = &OpaqueV{N: [2]interface{}{c, role}}
	}
	// inverse axiom against the Date triples seen so far
	days, _ := e.lazyMemo["cal#days"].(*OpaqueV)
	var dl []string
	if days != nil {
		dl = days.N.([]string)
	}
	dl = append(dl, c.day)
	e.lazyMemo["cal#days"] = &OpaqueV{N: dl}
	if tr, ok := e.lazyMemo["cal#triples"].(*OpaqueV); ok {
		for _, t := range tr.N.([]calTriple) {
			e.calInverse(t, c.day)
		}
	}
	return c
}

func (e *Exec) calDeclare() {
	for _, f := range []string{"cal_Y", "cal_M", "cal_D", "cal_YD"} {
		e.declareFun(f, "((_ BitVec 64)) (_ BitVec 64)")
	}
	e.declareFun("cal_days", "((_ BitVec 64) (_ BitVec 64) (_ BitVec 64)) (_ BitVec 64)")
}

func (e *Exec) calInverse(t calTriple, day string) {
	e.assume(fmt.Sprintf("(=> (and (= %s (cal_Y %s)) (= %s (cal_M %s)) (= %s (cal_D %s))) (= (cal_days %s %s %s) %s))", t.y, day, t.m, day, t.d, day, t.y, t.m, t.d, day))
}

func timeConst(e *Exec, name string) (int64, bool) {
	tp := e.findPkg("time")
	if tp == nil {
		return 0, false
	}
	nc, ok := tp.Members[name].(*ssa.NamedConst)
	if !ok {
		return 0, false
	}
	v, ok := constant.Int64Val(constant.ToInt(nc.Value.Value))
	return v, ok
}

func addCalendarIntrinsics(m map[string]intrinsic) {
	m["time.absDate"] = func(e *Exec, fn *ssa.Function, args []Value) Value {
		abs := args[0].(*BV)
		if abs.C != nil || !e.cfg.Calendar {
			return e.runBody(fn, args)
		}
		c := e.calSplitOf(abs)
		return &TupleV{E: []Value{&BV{T: "(cal_Y " + c.day + ")", W: 64}, &BV{T: "(cal_M " + c.day + ")", W: 64}, &BV{T: "(cal_D " + c.day + ")", W: 64}, &BV{T: "(cal_YD " + c.day + ")", W: 64}}}
	}
	m["time.absClock"] = func(e *Exec, fn *ssa.Function, args []Value) Value {
		abs := args[0].(*BV)
		if abs.C != nil || !e.cfg.Calendar {
			return e.runBody(fn, args)
		}
		c := e.calSplitOf(abs)
		return &TupleV{E: []Value{&BV{T: c.h, W: 64}, &BV{T: c.m, W: 64}, &BV{T: c.s, W: 64}}}
	}
	// Hour / Minute / Second compute abs % 86400 / 3600 etc. directly: route them through the split as well
	for _, meth := range []string{"Hour", "Minute", "Second"} {
		meth := meth
		m["(time.Time)."+meth] = func(e *Exec, fn *ssa.Function, args []Value) Value {
			absFn := e.findMethod("time", "Time", "abs", false)
			if !e.cfg.Calendar || absFn == nil || len(absFn.Blocks) == 0 {
				return e.runBody(fn, args)
			}
			abs, ok := e.runBody(absFn, []Value{args[0]}).(*BV)
			if !ok || abs.C != nil {
				return e.runBody(fn, args)
			}
			c := e.calSplitOf(abs)
			switch meth {
			case "Hour":
				return &BV{T: c.h, W: 64}
			case "Minute":
				return &BV{T: c.m, W: 64}
			}
			return &BV{T: c.s, W: 64}
		}
	}
	old := m["time.Date"]
	m["time.Date"] = func(e *Exec, fn *ssa.Function, args []Value) Value {
		allc := true
		for i := 0; i < 7; i++ {
			if _, ok := concInt(args[i]); !ok {
				allc = false
			}
		}
		if allc || !e.cfg.Calendar {
			return old(e, fn, args)
		}
		// the location must be UTC (the only one the zlint tree passes); nil panics in the real function
		lp, ok := args[7].(*PtrV)
		if !ok || lp.O == nil {
			panic(goPanic{msg: "time: missing Location in call to Date", site: e.curSite})
		}
		if lp.O.Name != "time.utcLoc" && lp.O.Tag != "global:time.utcLoc" {
			e.unsupported("time.Date with symbolic fields in a location other than UTC")
		}
		a2i, ok := timeConst(e, "absoluteToInternal")
		if !ok {
			e.unsupported("time.absoluteToInternal not found")
		}
		e.stub("model:time.Date(in-range fields; day number = uninterpreted inverse of year/month/day)")
		bv := func(i int) *BV { return args[i].(*BV) }
		y, mo, d, h, mi, s, ns := bv(0), bv(1), bv(2), bv(3), bv(4), bv(5), bv(6)
		// fields in range (what the accessors deliver); out-of-range normalisation is not modelled
		inr := fmt.Sprintf("(and (bvsge %s (_ bv1 64)) (bvsle %s (_ bv12 64)) (bvsge %s (_ bv1 64)) (bvsle %s (_ bv31 64)) (bvsge %s (_ bv0 64)) (bvslt %s (_ bv24 64)) (bvsge %s (_ bv0 64)) (bvslt %s (_ bv60 64)) (bvsge %s (_ bv0 64)) (bvslt %s (_ bv60 64)) (bvsge %s (_ bv0 64)) (bvslt %s (_ bv1000000000 64)))",
			mo.T, mo.T, d.T, d.T, h.T, h.T, mi.T, mi.T, s.T, s.T, ns.T, ns.T)
		if !e.branch(&BoolV{T: inr}) {
			e.unsupported("time.Date with symbolic fields that may be out of range (normalisation not modelled)")
		}
		e.calDeclare()
		t := calTriple{y.T, mo.T, d.T}
		var tl []calTriple
		if tr, ok := e.lazyMemo["cal#triples"].(*OpaqueV); ok {
			tl = tr.N.([]calTriple)
		}
		tl = append(tl, t)
		e.lazyMemo["cal#triples"] = &OpaqueV{N: tl}
		if days, ok := e.lazyMemo["cal#days"].(*OpaqueV); ok {
			for _, dn := range days.N.([]string) {
				e.calInverse(t, dn)
			}
		}
		field := func(t, role string) *calSplit {
			if v, ok := e.lazyMemo["calfield#"+t].(*OpaqueV); ok {
				p := v.N.([2]interface{})
				if p[1].(string) == role {
					return p[0].(*calSplit)
				}
			}
			return nil
		}
		days := fmt.Sprintf("(cal_days %s %s %s)", y.T, mo.T, d.T)
		if cy, cm, cd := field(y.T, "Y"), field(mo.T, "M"), field(d.T, "D"); cy != nil && cy == cm && cy == cd {
			days = cy.day // year, month and day of one and the same day number
		} else {
			e.assume(fmt.Sprintf("(bvule %s (_ bv213503982334601 64))", days))
		}
		tod := fmt.Sprintf("(bvadd (bvmul %s (_ bv3600 64)) (bvmul %s (_ bv60 64)) %s)", h.T, mi.T, s.T)
		if ch, cm, cs := field(h.T, "h"), field(mi.T, "m"), field(s.T, "s"); ch != nil && ch == cm && ch == cs {
			tod = ch.sod // hour, minute and second of one and the same instant
		}
		abs := fmt.Sprintf("(bvadd (bvmul %s (_ bv86400 64)) %s)", days, tod)
		ext := fmt.Sprintf("(bvadd %s (_ bv%d 64))", abs, uint64(a2i))
		// UTC is stored as a nil location (Time.setLoc)
		return &StructV{F: []Value{&BV{T: ns.T, W: 64}, e.nameValue(&BV{T: ext, W: 64}, "caldate"), &PtrV{}}}
	}
	_ = types.Typ
}
