package main

// Environment stubs for the command-line tool (C15): file contents, PEM and
// base64 decoding, the two parsers, the library entry points, JSON encoding,
// standard output and logrus' Fatal are replaced by nondeterministic stubs
// that return an arbitrary value of their contract and append what they were
// given to a ghost log the harness inspects.

import (
	"fmt"
	"go/types"

	"golang.org/x/tools/go/ssa"
)

func (e *Exec) envLog(s string) {
	e.ghost["env"] = append(e.ghost["env"], cstr(s))
}

func (e *Exec) envBytes(tag string, n int) *SliceV {
	arr := &ArrayV{E: make([]Value, n)}
	for i := range arr.E {
		nm := e.freshInput("env."+tag, "(_ BitVec 8)")
		arr.E[i] = &BV{T: nm, W: 8}
	}
	ln := e.freshInput("env."+tag+".len", "(_ BitVec 64)")
	e.assume(fmt.Sprintf("(bvule %s (_ bv%d 64))", ln, n))
	return &SliceV{O: e.newObj(arr, "env:"+tag), Len: &BV{T: ln, W: 64}, Cap: n}
}

func originOf(v Value) string {
	switch x := v.(type) {
	case *SliceV:
		if x.O != nil {
			return x.O.Name
		}
		return "nil"
	case *PtrV:
		if x.O != nil {
			return x.O.Name
		}
		return "nil"
	case *MapV:
		if x.M != nil {
			return x.M.Tag
		}
		return "nil"
	case *IfaceV:
		if x.T == nil {
			return "nil"
		}
		return originOf(x.V)
	}
	return "?"
}

func (e *Exec) envErr(name string) *IfaceV {
	b := e.freshInput("env."+name+".fails", "Bool")
	if e.branch(&BoolV{T: b}) {
		return e.mkError(name + " failed").(*IfaceV)
	}
	return &IfaceV{}
}

func addCLIIntrinsics(m map[string]intrinsic) {
	on := func(f intrinsic) intrinsic {
		return func(e *Exec, fn *ssa.Function, args []Value) Value {
			if !e.cfg.CLIEnv {
				if len(fn.Blocks) > 0 && e.execFromSource(fn) {
					return e.runBody(fn, args)
				}
				if e.cfg.AutoUF {
					e.stub("auto-uf:" + fn.String())
					return e.ufCall(fn.String(), args, fn.Signature.Results())
				}
				e.unsupported("no stub: %s", fn.String())
			}
			e.stub("env:" + fn.String())
			return f(e, fn, args)
		}
	}
	m["io.ReadAll"] = on(func(e *Exec, fn *ssa.Function, args []Value) Value {
		err := e.envErr("io.ReadAll")
		if err.T != nil {
			return &TupleV{E: []Value{&SliceV{Len: cbv(0, 64)}, err}}
		}
		return &TupleV{E: []Value{e.envBytes("file", 4), &IfaceV{}}}
	})
	m["encoding/pem.Decode"] = on(func(e *Exec, fn *ssa.Function, args []Value) Value {
		e.envLog("pem.Decode(" + originOf(args[0]) + ")")
		none := e.freshInput("env.pem.none", "Bool")
		rt := fn.Signature.Results().At(0).Type().(*types.Pointer).Elem()
		if e.branch(&BoolV{T: none}) {
			return &TupleV{E: []Value{&PtrV{}, args[0]}}
		}
		// Block{Type string; Headers map[string]string; Bytes []byte}
		var typ Value
		k := e.freshInput("env.pem.type", "(_ BitVec 64)")
		switch e.concretize(&BV{T: k, W: 64}, 3) {
		case 0:
			typ = cstr("CERTIFICATE")
		case 1:
			typ = cstr("X509 CRL")
		default:
			typ = e.newSymString(e.freshInput("env.pem.othertype", "String"))
			e.assume("(and (not (= " + typ.(*StrV).T + " \"CERTIFICATE\")) (not (= " + typ.(*StrV).T + " \"X509 CRL\")))")
		}
		_ = rt
		blk := &StructV{F: []Value{typ, &MapV{}, e.envBytes("pem", 4)}}
		return &TupleV{E: []Value{&PtrV{O: e.newObj(blk, "env:pemblock")}, &SliceV{Len: cbv(0, 64)}}}
	})
	m["(*encoding/base64.Encoding).DecodeString"] = on(func(e *Exec, fn *ssa.Function, args []Value) Value {
		e.envLog("base64.DecodeString")
		err := e.envErr("base64.DecodeString")
		if err.T != nil {
			return &TupleV{E: []Value{&SliceV{Len: cbv(0, 64)}, err}}
		}
		return &TupleV{E: []Value{e.envBytes("b64", 4), &IfaceV{}}}
	})
	parser := func(what string) intrinsic {
		return on(func(e *Exec, fn *ssa.Function, args []Value) Value {
			e.envLog(what + "(" + originOf(args[0]) + ")")
			err := e.envErr(what)
			if err.T != nil {
				return &TupleV{E: []Value{&PtrV{}, err}}
			}
			pt := fn.Signature.Results().At(0).Type().(*types.Pointer)
			o := e.newObj(&LazyV{Name: "env." + what, T: pt.Elem()}, "env:"+what)
			return &TupleV{E: []Value{&PtrV{O: o}, &IfaceV{}}}
		})
	}
	m["github.com/zmap/zcrypto/x509.ParseCertificate"] = parser("ParseCertificate")
	m["github.com/zmap/zcrypto/x509.ParseRevocationList"] = parser("ParseRevocationList")
	linter := func(what string) intrinsic {
		return on(func(e *Exec, fn *ssa.Function, args []Value) Value {
			e.envLog(what + "(" + originOf(args[0]) + "," + originOf(args[1]) + ")")
			mo := e.newMap()
			mo.Tag = "env:results"
			rs := e.zero(fn.Signature.Results().At(0).Type().(*types.Pointer).Elem()).(*StructV)
			nf := &StructV{F: append([]Value{}, rs.F...)}
			nf.F[2] = &MapV{M: mo}
			return &PtrV{O: e.newObj(nf, "env:resultset")}
		})
	}
	m["github.com/zmap/zlint/v3.LintCertificateEx"] = linter("LintCertificateEx")
	m["github.com/zmap/zlint/v3.LintRevocationListEx"] = linter("LintRevocationListEx")
	m["(*os.File).Write"] = on(func(e *Exec, fn *ssa.Function, args []Value) Value {
		n := "?"
		if sl, ok := args[1].(*SliceV); ok {
			if c, ok := e.concBytes(sl); ok {
				n = fmt.Sprintf("%q", string(c))
			} else {
				n = originOf(sl)
			}
		}
		e.envLog("Write(" + n + ")")
		return &TupleV{E: []Value{cbv(0, 64), &IfaceV{}}}
	})
	m["(*os.File).Sync"] = on(func(e *Exec, fn *ssa.Function, args []Value) Value { return &IfaceV{} })
	m["(*os.File).Name"] = on(func(e *Exec, fn *ssa.Function, args []Value) Value { return cstr("input") })
	fatal := on(func(e *Exec, fn *ssa.Function, args []Value) Value {
		e.envLog("Fatal")
		panic(goPanic{val: &IfaceV{T: types.Typ[types.String], V: cstr("exit status 1")}, msg: "log.Fatal: exit status 1", site: e.curSite})
	})
	m["github.com/sirupsen/logrus.Fatal"] = fatal
	m["github.com/sirupsen/logrus.Fatalf"] = fatal
	m["github.com/sirupsen/logrus.Fatalln"] = fatal
}

// jsonMarshalCLI: in the command-line model the encoder answers with an
// arbitrary byte string (tagged by what it was given) or an error.
func (e *Exec) jsonMarshalCLI(arg Value) Value {
	e.stub("env:encoding/json.Marshal")
	e.envLog("json.Marshal(" + originOf(arg) + ")")
	err := e.envErr("json.Marshal")
	if err.T != nil {
		return &TupleV{E: []Value{&SliceV{Len: cbv(0, 64)}, err}}
	}
	b := e.envBytes("json", 4)
	return &TupleV{E: []Value{b, &IfaceV{}}}
}
