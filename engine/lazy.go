package main

// Lazy initialisation of symbolic input objects: a part of an input is given a
// symbolic value the first time the program reads it.  Names are derived from
// the access path, so materialising the same part twice yields the same
// symbols, objects and decisions.

import (
	"fmt"
	"go/types"
	"strings"
)

func (e *Exec) force(v Value) Value {
	lz, ok := v.(*LazyV)
	if !ok {
		return v
	}
	return e.materialise(lz)
}

func (e *Exec) boundFor(name string, t types.Type) int {
	if b, ok := e.cfg.Bounds[name]; ok {
		return b
	}
	// suffix rules: "*.Field"
	for k, b := range e.cfg.Bounds {
		if strings.HasPrefix(k, "*") && strings.HasSuffix(name, k[1:]) {
			return b
		}
	}
	if sl, ok := t.Underlying().(*types.Slice); ok {
		if w, _ := width(sl.Elem()); w == 8 {
			return e.cfg.ByteBound
		}
		if tn := namedOf(t); strings.HasSuffix(tn, "asn1.ObjectIdentifier") {
			if b, ok := e.cfg.Bounds["oid"]; ok {
				return b
			}
			return 9
		}
	}
	return e.cfg.ListBound
}

func namedOf(t types.Type) string {
	if n, ok := t.(*types.Named); ok {
		if n.Obj().Pkg() != nil {
			return n.Obj().Pkg().Path() + "." + n.Obj().Name()
		}
		return n.Obj().Name()
	}
	if a, ok := t.(*types.Alias); ok {
		return namedOf(types.Unalias(a))
	}
	return ""
}

func (e *Exec) materialise(lz *LazyV) Value {
	name, t := lz.Name, lz.T
	if v, ok := e.lazyMemo[name]; ok {
		return v
	}
	v := e.materialise1(name, t)
	e.lazyMemo[name] = v
	return v
}

func (e *Exec) materialise1(name string, t types.Type) Value {
	q := quoteSym(name)
	nt := namedOf(t)
	switch nt {
	case "time.Time":
		return e.symTime(name)
	}
	switch u := t.Underlying().(type) {
	case *types.Basic:
		if isBool(t) {
			e.declareInput(q, "Bool")
			return &BoolV{T: q}
		}
		if isString(t) {
			return e.newSymString(q)
		}
		if w, _ := width(t); w > 0 {
			e.declareInput(q, fmt.Sprintf("(_ BitVec %d)", w))
			if strings.HasSuffix(name, ".(*rsa.PublicKey).*.E") {
				// P3: ... nor a public exponent that is not positive
				e.assume(fmt.Sprintf("(bvsgt %s (_ bv0 %d))", q, w))
			}
			return &BV{T: q, W: w}
		}
		e.unsupported("lazy value of type %s", t.String())
	case *types.Struct:
		s := &StructV{F: make([]Value, u.NumFields()), Origin: name}
		for i := 0; i < u.NumFields(); i++ {
			fn := u.Field(i).Name()
			if !u.Field(i).Exported() && (fn == "parsedDNSNames" || fn == "parsedCommonName") && strings.HasSuffix(nt, "x509.Certificate") {
				// zcrypto's parse caches are empty in a freshly parsed certificate
				s.F[i] = e.zero(u.Field(i).Type())
				continue
			}
			s.F[i] = &LazyV{Name: name + "." + fn, T: u.Field(i).Type()}
		}
		return s
	case *types.Array:
		a := &ArrayV{E: make([]Value, u.Len())}
		for i := range a.E {
			a.E[i] = &LazyV{Name: fmt.Sprintf("%s[%d]", name, i), T: u.Elem()}
		}
		return a
	case *types.Pointer:
		en := namedOf(u.Elem())
		switch en {
		case "time.Location":
			return &PtrV{}
		case "math/big.Int":
			e.declareInput(q, "Int")
			if strings.HasSuffix(name, ".(*rsa.PublicKey).*.N") {
				// P3: the parser rejects RSA keys whose modulus is not positive (zcrypto x509.go parsePublicKey)
				e.assume("(> " + q + " 0)")
			}
			o := e.newObj(&BigV{T: q}, name)
			o.Tag = "lazy:" + name
			return &PtrV{O: o}
		}
		nn := quoteSym(name + "!nn")
		if pol, ok := e.cfg.Bounds["nonnil:"+name]; ok {
			if pol == 0 {
				return &PtrV{}
			}
			e.declareInput(nn, "Bool")
			e.assume(nn)
		} else {
			e.declareInput(nn, "Bool")
			if !e.branch(&BoolV{T: nn}) {
				return &PtrV{}
			}
		}
		o := e.newObj(&LazyV{Name: name + ".*", T: u.Elem()}, name)
		o.Tag = "lazy:" + name
		return &PtrV{O: o}
	case *types.Slice:
		bound := e.boundFor(name, t)
		ln := quoteSym(name + "!len")
		e.declareInput(ln, "(_ BitVec 64)")
		e.assume(fmt.Sprintf("(bvule %s (_ bv%d 64))", ln, bound))
		nilsym := quoteSym(name + "!nil")
		e.declareInput(nilsym, "Bool")
		e.assume(fmt.Sprintf("(=> %s (= %s (_ bv0 64)))", nilsym, ln))
		arr := &ArrayV{E: make([]Value, bound)}
		for i := range arr.E {
			arr.E[i] = &LazyV{Name: fmt.Sprintf("%s[%d]", name, i), T: u.Elem()}
		}
		o := e.newObj(arr, name)
		o.Tag = "lazy:" + name
		sl := &SliceV{O: o, Len: &BV{T: ln, W: 64}, Cap: bound, NilSym: nilsym}
		e.lazySliceInvariants(name, t, sl)
		return sl
	case *types.Map:
		m := e.newMap()
		m.Tag = "lazy:" + name
		m.Lazy = &LazyMap{Name: name, VT: u.Elem()}
		return &MapV{M: m}
	case *types.Interface:
		cands, ok := e.ifaceCandidates(ifaceKey(name))
		if !ok {
			cands, ok = e.ifaceCandidatesByType(t)
		}
		if !ok {
			e.unsupported("lazy interface value %s (%s) without candidate types", name, t.String())
		}
		for i, ct := range cands {
			if i == len(cands)-1 {
				e.ifaceChosen(name, i)
				return e.ifaceOf(name, ct)
			}
			sel := quoteSym(fmt.Sprintf("%s!dyn%d", name, i))
			e.declareInput(sel, "Bool")
			if e.branch(&BoolV{T: sel}) {
				e.ifaceChosen(name, i)
				return e.ifaceOf(name, ct)
			}
		}
		return &IfaceV{}
	case *types.Signature:
		return &FuncV{}
	case *types.Chan:
		return &OpaqueV{}
	}
	e.unsupported("lazy value of type %s", t.String())
	return nil
}

func ifaceKey(name string) string {
	// strip the root object name: "c.PublicKey" -> ".PublicKey"
	if i := strings.Index(name, "."); i >= 0 {
		return name[i:]
	}
	return name
}

func (e *Exec) ifaceOf(name string, ct types.Type) Value {
	if ct == nil {
		return &IfaceV{}
	}
	inner := name + ".(" + shortType(ct) + ")"
	if _, isPtr := ct.Underlying().(*types.Pointer); isPtr {
		// parsers never store a typed nil pointer in an interface field
		if _, set := e.cfg.Bounds["nonnil:"+inner]; !set {
			e.cfg.Bounds["nonnil:"+inner] = 1
		}
	}
	v := e.force(&LazyV{Name: inner, T: ct})
	if p, ok := v.(*PtrV); ok && p.O == nil {
		// a typed nil pointer is not what parsers produce; use nil interface
		return &IfaceV{}
	}
	return &IfaceV{T: ct, V: v}
}

func shortType(t types.Type) string {
	s := types.TypeString(t, func(p *types.Package) string { return p.Name() })
	return s
}

// symTime creates an arbitrary parser-produced time.Time (assumption P1): no
// monotonic reading, nanoseconds in [0, 1e9), |seconds since year 1| < 2^55,
// location nil (UTC), or - when Bounds["timeloc"] is set - an opaque location.
func (e *Exec) symTime(name string) Value {
	ext := quoteSym(name + "!sec")
	ns := quoteSym(name + "!nsec")
	e.declareInput(ext, "(_ BitVec 64)")
	e.declareInput(ns, "(_ BitVec 64)")
	if !e.declared[ext+"#p1"] {
		e.declared[ext+"#p1"] = true
		e.assume(fmt.Sprintf("(bvult %s (_ bv1000000000 64))", ns))
		if strings.HasPrefix(name, "c.") || strings.HasPrefix(name, "crl.") || strings.HasPrefix(name, "ocsp.") {
			// times of a parsed object come from DER UTCTime / GeneralizedTime, which the parsers read in whole
			// seconds (layouts without a fractional part): no sub-second component
			e.assume(fmt.Sprintf("(= %s (_ bv0 64))", ns))
		}
		e.assume(fmt.Sprintf("(and (bvslt %s (_ bv36028797018963968 64)) (bvsgt %s (bvneg (_ bv36028797018963968 64))))", ext, ext))
	}
	return &StructV{F: []Value{&BV{T: ns, W: 64}, &BV{T: ext, W: 64}, e.symLocation(name)}}
}

// symLocation: nil (UTC) or - when Bounds["timeloc"] is set - possibly a fixed
// zone with an arbitrary offset of less than a day, which is what DER times
// written with a +hhmm offset parse to.  The struct mirrors time.FixedZone:
// one zone, one transition, cache covering all of time.
func (e *Exec) symLocation(name string) Value {
	if e.cfg.Bounds["timeloc"] == 0 {
		return &PtrV{}
	}
	key := "loc#" + name
	if v, ok := e.lazyMemo[key]; ok {
		return v
	}
	fz := quoteSym(name + "!fixedzone")
	e.declareInput(fz, "Bool")
	var out Value = &PtrV{}
	if e.branch(&BoolV{T: fz}) {
		off := quoteSym(name + "!offset")
		e.declareInput(off, "(_ BitVec 64)")
		e.assume(fmt.Sprintf("(and (bvslt %s (_ bv86400 64)) (bvsgt %s (bvneg (_ bv86400 64))))", off, off))
		tp := e.findPkg("time")
		if tp == nil || tp.Type("Location") == nil {
			e.unsupported("time.Location not loaded")
		}
		zone := &StructV{F: []Value{cstr("zz"), &BV{T: off, W: 64}, cbool(false)}}
		zarr := e.newObj(&ArrayV{E: []Value{zone}}, "loc:zones")
		tx := &StructV{F: []Value{cbv(1<<63, 64), cbv(0, 8), cbool(false), cbool(false)}}
		tarr := e.newObj(&ArrayV{E: []Value{tx}}, "loc:tx")
		loc := &StructV{F: []Value{cstr("zz"),
			&SliceV{O: zarr, Len: cbv(1, 64), Cap: 1},
			&SliceV{O: tarr, Len: cbv(1, 64), Cap: 1},
			cstr(""), cbv(1<<63, 64), cbv(1<<63-1, 64), &PtrV{O: zarr, Path: []int{0}}}}
		out = &PtrV{O: e.newObj(loc, "loc:"+name)}
	}
	e.lazyMemo[key] = out
	return out
}

// lazySliceInvariants adds parser invariants tied to specific slice types.
func (e *Exec) lazySliceInvariants(name string, t types.Type, sl *SliceV) {
	if i := strings.Index(name, "."); i >= 0 {
		rest := name[i:]
		if (strings.HasPrefix(rest, ".Subject.") || strings.HasPrefix(rest, ".Issuer.")) && strings.Count(rest, ".") == 2 && !strings.Contains(rest, "[") {
			// P7: the attribute lists of a parsed pkix.Name are built with append (FillFromRDNSequence): never non-nil and empty
			e.assume(fmt.Sprintf("(= %s (= %s (_ bv0 64)))", sl.NilSym, sl.Len.T))
		}
	}
	switch namedOf(t) {
	case "net.IP":
		// P5: parsed IP addresses have 4 or 16 bytes
		sl.Cap = 16
		arr := &ArrayV{E: make([]Value, 16)}
		for i := range arr.E {
			arr.E[i] = &LazyV{Name: fmt.Sprintf("%s[%d]", name, i), T: types.Typ[types.Uint8]}
		}
		sl.O.V = arr
		e.assume(fmt.Sprintf("(or (= %s (_ bv4 64)) (= %s (_ bv16 64)))", sl.Len.T, sl.Len.T))
	}
}

func (e *Exec) lazyMapLookup(m *MapObj, k Value, mt *types.Map) (Value, *BoolV) {
	ks, ok := concStr(k)
	if !ok {
		if kb, ok2 := concInt(k); ok2 {
			ks = fmt.Sprint(kb)
		} else {
			e.unsupported("symbolic key into lazy input map %s", m.Lazy.Name)
		}
	}
	name := fmt.Sprintf("%s[%q]", m.Lazy.Name, ks)
	pres := quoteSym(name + "!present")
	e.declareInput(pres, "Bool")
	if e.branch(&BoolV{T: pres}) {
		return e.force(&LazyV{Name: name, T: m.Lazy.VT}), cbool(true)
	}
	return e.zero(mt.Elem()), cbool(false)
}
