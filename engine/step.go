package main

import (
	"fmt"
	"go/token"
	"go/types"
	"strings"

	"golang.org/x/tools/go/ssa"
)

func (e *Exec) step(fr *frame, in ssa.Instruction) {
	switch x := in.(type) {
	case *ssa.DebugRef:
	case *ssa.Alloc:
		o := e.newObj(e.zero(x.Type().(*types.Pointer).Elem()), x.Comment)
		fr.locals[x] = &PtrV{O: o}
	case *ssa.Store:
		p, ok := e.get(fr, x.Addr).(*PtrV)
		if !ok {
			e.unsupported("store through %T", e.get(fr, x.Addr))
		}
		e.store(p, e.get(fr, x.Val), e.pos2s(x.Pos()))
	case *ssa.UnOp:
		fr.locals[x] = e.unop(fr, x)
	case *ssa.BinOp:
		fr.locals[x] = e.binop(x.Op, e.get(fr, x.X), e.get(fr, x.Y), x.X.Type(), e.pos2s(x.Pos()))
	case *ssa.FieldAddr:
		p, ok := e.get(fr, x.X).(*PtrV)
		if !ok {
			e.unsupported("fieldaddr on %T", e.get(fr, x.X))
		}
		if p.O == nil {
			panic(goPanic{msg: "nil pointer dereference", site: e.pos2s(x.Pos())})
		}
		fr.locals[x] = &PtrV{O: p.O, Path: appendPath(p.Path, x.Field)}
	case *ssa.Field:
		sv, ok := e.get(fr, x.X).(*StructV)
		if !ok {
			e.unsupported("field of %T", e.get(fr, x.X))
		}
		fr.locals[x] = e.force(sv.F[x.Field])
	case *ssa.IndexAddr:
		fr.locals[x] = e.indexAddr(fr, x)
	case *ssa.Index:
		fr.locals[x] = e.index(fr, x)
	case *ssa.Phi:
		panic("phi in the middle of a block")
	case *ssa.Call:
		fr.locals[x] = e.doCall(fr, x.Common(), e.pos2s(x.Pos()))
	case *ssa.Extract:
		t, ok := e.get(fr, x.Tuple).(*TupleV)
		if !ok {
			e.unsupported("extract from %T", e.get(fr, x.Tuple))
		}
		fr.locals[x] = t.E[x.Index]
	case *ssa.MakeInterface:
		fr.locals[x] = &IfaceV{T: x.X.Type(), V: e.get(fr, x.X)}
	case *ssa.ChangeType:
		fr.locals[x] = e.get(fr, x.X)
	case *ssa.ChangeInterface:
		fr.locals[x] = e.get(fr, x.X)
	case *ssa.Convert:
		fr.locals[x] = e.convert(e.get(fr, x.X), x.X.Type(), x.Type())
	case *ssa.MultiConvert:
		fr.locals[x] = e.convert(e.get(fr, x.X), x.X.Type(), x.Type())
	case *ssa.Slice:
		fr.locals[x] = e.sliceOp(fr, x)
	case *ssa.SliceToArrayPointer:
		sl := e.get(fr, x.X).(*SliceV)
		n := x.Type().(*types.Pointer).Elem().Underlying().(*types.Array).Len()
		ln, ok := concInt(sl.Len)
		if !ok || ln < n {
			e.unsupported("slice to array pointer with short/symbolic slice")
		}
		if sl.Off != 0 {
			e.unsupported("slice to array pointer with offset")
		}
		fr.locals[x] = &PtrV{O: sl.O, Path: sl.P}
	case *ssa.MakeMap:
		fr.locals[x] = &MapV{M: e.newMap()}
	case *ssa.MapUpdate:
		m, ok := e.get(fr, x.Map).(*MapV)
		if !ok {
			e.unsupported("mapupdate on %T", e.get(fr, x.Map))
		}
		e.mapUpdate(m, e.get(fr, x.Key), e.get(fr, x.Value), e.pos2s(x.Pos()))
	case *ssa.Lookup:
		fr.locals[x] = e.lookup(fr, x)
	case *ssa.Range:
		fr.locals[x] = e.rangeInit(fr, x)
	case *ssa.Next:
		fr.locals[x] = e.rangeNext(fr, x)
	case *ssa.MakeSlice:
		n, ok := concInt(e.get(fr, x.Len))
		c, ok2 := concInt(e.get(fr, x.Cap))
		et := x.Type().Underlying().(*types.Slice).Elem()
		if !ok2 {
			c = int64(e.boundFor("make", x.Type()))
		}
		if c > 1<<16 {
			e.unsupported("huge make")
		}
		arr := &ArrayV{E: make([]Value, c)}
		z := e.zero(et)
		for i := range arr.E {
			arr.E[i] = z
		}
		o := e.newObj(arr, "make")
		if ok {
			if n < 0 || n > c {
				panic(goPanic{msg: "makeslice: len out of range", site: e.pos2s(x.Pos())})
			}
			fr.locals[x] = &SliceV{O: o, Len: cbv(uint64(n), 64), Cap: int(c)}
		} else {
			ln := e.get(fr, x.Len).(*BV)
			ln = resize(ln, 64, true)
			// symbolic length: bounded by the capacity we chose
			if !e.branch(bvcmp("bvule", ln, cbv(uint64(c), 64))) {
				panic(pathEnd{"unwind-cut", "make with symbolic length beyond bound"})
			}
			fr.locals[x] = &SliceV{O: o, Len: ln, Cap: int(c)}
		}
	case *ssa.MakeClosure:
		var bs []Value
		for _, bv := range x.Bindings {
			bs = append(bs, e.get(fr, bv))
		}
		fr.locals[x] = &FuncV{Fn: x.Fn.(*ssa.Function), B: bs}
	case *ssa.Defer:
		cc := x.Common()
		var as []Value
		site := e.pos2s(x.Pos())
		if cc.IsInvoke() {
			recv, ok := e.get(fr, cc.Value).(*IfaceV)
			if !ok || recv.T == nil {
				panic(goPanic{msg: "nil interface method call (defer)", site: site})
			}
			fn := e.prog.LookupMethod(recv.T, cc.Method.Pkg(), cc.Method.Name())
			as = append(as, recv.V)
			for _, a := range cc.Args {
				as = append(as, e.get(fr, a))
			}
			fr.defers = append(fr.defers, deferred{fv: &FuncV{Fn: fn}, args: as})
			break
		}
		for _, a := range cc.Args {
			as = append(as, e.get(fr, a))
		}
		if b, isB := cc.Value.(*ssa.Builtin); isB {
			bn := b.Name()
			fr.defers = append(fr.defers, deferred{native: func() { e.builtin(fr, bn, as, cc, site) }})
			break
		}
		var fv *FuncV
		if sc := cc.StaticCallee(); sc != nil {
			fv = &FuncV{Fn: sc}
			if mc, ok := cc.Value.(*ssa.MakeClosure); ok {
				fv = e.get(fr, mc).(*FuncV)
			}
		} else {
			fv = e.get(fr, cc.Value).(*FuncV)
		}
		fr.defers = append(fr.defers, deferred{fv: fv, args: as})
	case *ssa.RunDefers:
		e.runDefers(fr)
	case *ssa.TypeAssert:
		fr.locals[x] = e.typeAssert(fr, x)
	case *ssa.Go:
		e.unsupported("go statement")
	case *ssa.Send, *ssa.Select, *ssa.MakeChan:
		e.unsupported("channel operation")
	default:
		e.unsupported("instr %T in %s", in, fr.fn.String())
	}
}

func (e *Exec) unop(fr *frame, x *ssa.UnOp) Value {
	v := e.get(fr, x.X)
	switch x.Op {
	case token.MUL:
		p, ok := v.(*PtrV)
		if !ok {
			e.unsupported("deref of %T", v)
		}
		return e.load(p, e.pos2s(x.Pos()))
	case token.NOT:
		return bnot(v.(*BoolV))
	case token.SUB:
		a, ok := v.(*BV)
		if !ok {
			e.unsupported("negate %T", v)
		}
		return bvbin(token.SUB, cbv(0, a.W), a, true)
	case token.XOR:
		a := v.(*BV)
		if a.C != nil {
			return cbv(^*a.C, a.W)
		}
		return &BV{T: "(bvnot " + a.T + ")", W: a.W}
	case token.ARROW:
		e.unsupported("channel receive")
	}
	e.unsupported("unop %s", x.Op.String())
	return nil
}

func (e *Exec) typeAssert(fr *frame, x *ssa.TypeAssert) Value {
	iv, ok := e.get(fr, x.X).(*IfaceV)
	if !ok {
		e.unsupported("typeassert on %T", e.get(fr, x.X))
	}
	it, isIface := x.AssertedType.Underlying().(*types.Interface)
	ok = false
	if iv.T != nil {
		if isIface {
			ok = types.Implements(iv.T, it)
		} else {
			ok = types.Identical(iv.T, x.AssertedType)
		}
	}
	var res Value
	if ok {
		if isIface {
			res = iv
		} else {
			res = iv.V
		}
	} else {
		if !x.CommaOk {
			dyn := "nil"
			if iv.T != nil {
				dyn = iv.T.String()
			}
			panic(goPanic{msg: fmt.Sprintf("interface conversion: interface is %s, not %s", dyn, x.AssertedType.String()), site: e.pos2s(x.Pos())})
		}
		res = e.zero(x.AssertedType)
	}
	if x.CommaOk {
		return &TupleV{E: []Value{res, cbool(ok)}}
	}
	return res
}

func (e *Exec) indexAddr(fr *frame, x *ssa.IndexAddr) Value {
	base := e.get(fr, x.X)
	idx, ok := e.get(fr, x.Index).(*BV)
	if !ok {
		e.unsupported("index %T", e.get(fr, x.Index))
	}
	_, sg := width(x.Index.Type())
	idx = resize(idx, 64, sg)
	site := e.pos2s(x.Pos())
	switch bb := base.(type) {
	case *SliceV:
		inb := bvcmp("bvult", idx, bb.Len)
		if !e.branch(inb) {
			panic(goPanic{msg: "index out of range", site: site})
		}
		if bb.O == nil {
			e.unsupported("index into nil slice with nonzero length")
		}
		k := e.concretize(idx, bb.Cap)
		return &PtrV{O: bb.O, Path: appendPath(bb.P, bb.Off+k)}
	case *PtrV:
		if bb.O == nil {
			panic(goPanic{msg: "nil pointer dereference", site: site})
		}
		n := int(x.X.Type().Underlying().(*types.Pointer).Elem().Underlying().(*types.Array).Len())
		inb := bvcmp("bvult", idx, cbv(uint64(n), 64))
		if !e.branch(inb) {
			panic(goPanic{msg: "index out of range", site: site})
		}
		k := e.concretize(idx, n)
		return &PtrV{O: bb.O, Path: appendPath(bb.Path, k)}
	}
	e.unsupported("indexaddr on %T", base)
	return nil
}

func (e *Exec) index(fr *frame, x *ssa.Index) Value {
	base := e.get(fr, x.X)
	idxv, ok := e.get(fr, x.Index).(*BV)
	if !ok {
		e.unsupported("index %T", e.get(fr, x.Index))
	}
	_, sg := width(x.Index.Type())
	idx := resize(idxv, 64, sg)
	site := e.pos2s(x.Pos())
	switch bb := base.(type) {
	case *ArrayV:
		inb := bvcmp("bvult", idx, cbv(uint64(len(bb.E)), 64))
		if !e.branch(inb) {
			panic(goPanic{msg: "index out of range", site: site})
		}
		k := e.concretize(idx, len(bb.E))
		return e.force(bb.E[k])
	case *StrV:
		return e.strIndex(bb, idx, site)
	}
	e.unsupported("index on %T", base)
	return nil
}

func (e *Exec) sliceOp(fr *frame, x *ssa.Slice) Value {
	base := e.get(fr, x.X)
	site := e.pos2s(x.Pos())
	var lo, hi, max *BV
	getb := func(v ssa.Value) *BV {
		if v == nil {
			return nil
		}
		b, ok := e.get(fr, v).(*BV)
		if !ok {
			e.unsupported("slice bound %T", e.get(fr, v))
		}
		_, sg := width(v.Type())
		return resize(b, 64, sg)
	}
	lo, hi, max = getb(x.Low), getb(x.High), getb(x.Max)
	_ = max
	if lo == nil {
		lo = cbv(0, 64)
	}
	switch bb := base.(type) {
	case *StrV:
		return e.strSlice(bb, lo, hi, site)
	case *PtrV: // pointer to array
		if bb.O == nil {
			panic(goPanic{msg: "nil pointer dereference", site: site})
		}
		n := int(x.X.Type().Underlying().(*types.Pointer).Elem().Underlying().(*types.Array).Len())
		if hi == nil {
			hi = cbv(uint64(n), 64)
		}
		if !e.branch(band(bvcmp("bvule", lo, hi), bvcmp("bvule", hi, cbv(uint64(n), 64)))) {
			panic(goPanic{msg: "slice bounds out of range", site: site})
		}
		l := e.concretize(lo, n+1)
		ln := bvbin(token.SUB, hi, cbv(uint64(l), 64), false).(*BV)
		return &SliceV{O: bb.O, P: bb.Path, Off: l, Len: ln, Cap: n - l}
	case *SliceV:
		if hi == nil {
			hi = bb.Len
		}
		// Go checks lo <= hi <= cap; the engine's capacity of lazily created
		// slices is the bound, so check against len for those (cap == len for parser output)
		capv := cbv(uint64(bb.Cap), 64)
		var within *BoolV
		if bb.NilSym != "" || bb.O != nil && strings.HasPrefix(bb.O.Tag, "lazy") {
			within = bvcmp("bvule", hi, bb.Len)
		} else {
			within = bvcmp("bvule", hi, capv)
		}
		if !e.branch(band(bvcmp("bvule", lo, hi), within)) {
			panic(goPanic{msg: "slice bounds out of range", site: site})
		}
		l := e.concretize(lo, bb.Cap+1)
		ln := bvbin(token.SUB, hi, cbv(uint64(l), 64), false).(*BV)
		if bb.O == nil {
			return &SliceV{Len: cbv(0, 64)}
		}
		return &SliceV{O: bb.O, P: bb.P, Off: bb.Off + l, Len: ln, Cap: bb.Cap - l}
	}
	e.unsupported("slice of %T", base)
	return nil
}

// elems returns the backing array of a slice.
func (e *Exec) arr(sl *SliceV) *ArrayV {
	if sl.O == nil {
		return &ArrayV{}
	}
	v := e.rawLoad(&PtrV{O: sl.O, Path: sl.P})
	v = e.force(v)
	a, ok := v.(*ArrayV)
	if !ok {
		e.unsupported("slice backing is %T", v)
	}
	return a
}

func (e *Exec) sliceElem(sl *SliceV, i int) Value {
	a := e.arr(sl)
	if sl.Off+i >= len(a.E) {
		e.unsupported("slice element beyond backing")
	}
	v := a.E[sl.Off+i]
	if _, isLazy := v.(*LazyV); isLazy {
		m := e.force(v)
		if e.mergeDepth == 0 {
			e.storeRaw(&PtrV{O: sl.O, Path: appendPath(sl.P, sl.Off+i)}, m)
		}
		return m
	}
	return v
}

// ---------- calls ----------

func (e *Exec) doCall(fr *frame, c *ssa.CallCommon, site string) Value {
	var args []Value
	if c.IsInvoke() {
		recv, ok := e.get(fr, c.Value).(*IfaceV)
		if !ok {
			e.unsupported("invoke on %T", e.get(fr, c.Value))
		}
		if recv.T == nil {
			panic(goPanic{msg: "nil pointer dereference (method call on nil interface)", site: site})
		}
		for _, a := range c.Args {
			args = append(args, e.get(fr, a))
		}
		if h := e.invokeIntrinsic(recv, c.Method.Name(), args); h != nil {
			return h()
		}
		fn := e.prog.LookupMethod(recv.T, c.Method.Pkg(), c.Method.Name())
		if fn == nil {
			e.unsupported("no method %s on %s", c.Method.Name(), recv.T.String())
		}
		return e.call(fn, append([]Value{recv.V}, args...), nil)
	}
	for _, a := range c.Args {
		args = append(args, e.get(fr, a))
	}
	if b, ok := c.Value.(*ssa.Builtin); ok {
		return e.builtin(fr, b.Name(), args, c, site)
	}
	if fn := c.StaticCallee(); fn != nil {
		var bind []Value
		if mc, ok := c.Value.(*ssa.MakeClosure); ok {
			bind = e.get(fr, mc).(*FuncV).B
		}
		return e.call(fn, args, bind)
	}
	fv, ok := e.get(fr, c.Value).(*FuncV)
	if !ok {
		e.unsupported("call of %T", e.get(fr, c.Value))
	}
	return e.callFV(fv, args, site)
}

func (e *Exec) builtin(fr *frame, name string, args []Value, c *ssa.CallCommon, site string) Value {
	switch name {
	case "len":
		switch a := args[0].(type) {
		case *SliceV:
			return a.Len
		case *StrV:
			return e.strLen(a)
		case *MapV:
			if a.M == nil {
				return cbv(0, 64)
			}
			if a.M.Lazy != nil {
				e.unsupported("len of lazy input map")
			}
			// entries are pairwise distinct on every path: mapUpdate forks on the
			// equality of a symbolic key with each existing key before adding one
			return cbv(uint64(len(a.M.K)), 64)
		case *PtrV: // pointer to array
			return cbv(uint64(c.Args[0].Type().Underlying().(*types.Pointer).Elem().Underlying().(*types.Array).Len()), 64)
		case *ArrayV:
			return cbv(uint64(len(a.E)), 64)
		}
	case "cap":
		switch a := args[0].(type) {
		case *SliceV:
			if a.NilSym != "" || a.O != nil && strings.HasPrefix(a.O.Tag, "lazy") {
				return a.Len
			}
			return cbv(uint64(a.Cap), 64)
		}
	case "append":
		return e.appendOp(args, c, site)
	case "copy":
		return e.copyOp(args, site)
	case "delete":
		m := args[0].(*MapV)
		if m.M == nil {
			return nil
		}
		i := e.mapFindConcrete(m.M, args[1])
		if i >= 0 {
			e.mapTouch(m.M, site)
			m.M.K = append(append([]Value{}, m.M.K[:i]...), m.M.K[i+1:]...)
			m.M.V = append(append([]Value{}, m.M.V[:i]...), m.M.V[i+1:]...)
		}
		return nil
	case "recover":
		if e.panicking == nil {
			return &IfaceV{}
		}
		p := e.panicking
		e.panicking = nil
		if p.val != nil {
			if iv, ok := p.val.(*IfaceV); ok {
				return iv
			}
			return &IfaceV{T: types.Typ[types.String], V: p.val}
		}
		// runtime error
		return &IfaceV{T: runtimeErrorType(e), V: cstr("runtime error: " + p.msg)}
	case "print", "println":
		return nil
	case "min", "max":
		acc := args[0].(*BV)
		_, sg := width(c.Args[0].Type())
		for _, a := range args[1:] {
			b := a.(*BV)
			op := token.LSS
			if name == "max" {
				op = token.GTR
			}
			cnd := bvbin(op, b, acc, sg).(*BoolV)
			acc = bvIte(cnd, b, acc)
		}
		return acc
	}
	e.unsupported("builtin %s(%T)", name, args[0])
	return nil
}

var rtErrType types.Type

func runtimeErrorType(e *Exec) types.Type {
	if rtErrType != nil {
		return rtErrType
	}
	// a named string type stands for runtime.Error values; fmt's %v prints the string
	rtErrType = types.NewNamed(types.NewTypeName(token.NoPos, nil, "runtimeError", nil), types.Typ[types.String], nil)
	return rtErrType
}

func (e *Exec) appendOp(args []Value, c *ssa.CallCommon, site string) Value {
	dst := args[0].(*SliceV)
	var srcElems []Value
	switch src := args[1].(type) {
	case *SliceV:
		sn, ok := concInt(src.Len)
		if !ok {
			sn = int64(e.concretize(src.Len, src.Cap+1))
		}
		for i := 0; i < int(sn); i++ {
			srcElems = append(srcElems, e.sliceElem(src, i))
		}
	case *StrV:
		bs := e.strToBytes(src)
		n, _ := concInt(bs.Len)
		for i := 0; i < int(n); i++ {
			srcElems = append(srcElems, e.sliceElem(bs, i))
		}
	default:
		e.unsupported("append %T", args[1])
	}
	dn, ok := concInt(dst.Len)
	if !ok {
		dn = int64(e.concretize(dst.Len, dst.Cap+1))
	}
	if len(srcElems) == 0 {
		if dst.O == nil && args[1].(interface{}) != nil {
			if s2, ok := args[1].(*SliceV); ok && s2.O != nil {
				// append(nil, empty-non-nil...) stays nil in Go
			}
		}
		return &SliceV{O: dst.O, P: dst.P, Off: dst.Off, Len: cbv(uint64(dn), 64), Cap: dst.Cap}
	}
	// Appending to a slice of the linted object: the parser grows its lists with append, so a parsed
	// slice may or may not have spare capacity.  Both cases are explored (one Bool per input slice):
	// with spare capacity the result ALIASES the object's backing array, so a later store through the
	// result to an index below the original length is a store into the linted object (seen by the
	// write monitor).  The appended elements themselves land beyond len and are not observable.
	if dst.O != nil && strings.HasPrefix(dst.O.Tag, "lazy:") && len(dst.P) == 0 && dst.Off == 0 && !e.cfg.NoSpareCap {
		if arr, ok := dst.O.V.(*ArrayV); ok {
			sym := quoteSym(strings.TrimPrefix(dst.O.Tag, "lazy:") + "!spare")
			e.declareInput(sym, "Bool")
			if e.branch(&BoolV{T: sym}) {
				if dst.O.Spare == 0 {
					dst.O.Spare = int(dn) + 1
				}
				for len(arr.E) < int(dn)+len(srcElems) {
					arr.E = append(arr.E, nil)
				}
				for i, v := range srcElems {
					arr.E[int(dn)+i] = v
				}
				nc := dst.Cap
				if int(dn)+len(srcElems) > nc {
					nc = int(dn) + len(srcElems)
				}
				return &SliceV{O: dst.O, Len: cbv(uint64(int(dn)+len(srcElems)), 64), Cap: nc}
			}
		}
	}
	// within capacity Go appends in place (deterministically): the result shares the backing array, and the
	// new elements are ordinary stores (seen by the write monitor when the array is older than the run or has
	// been published into the linted object, e.g. zcrypto's parse cache reused through s[:0])
	if dst.O != nil && !strings.HasPrefix(dst.O.Tag, "lazy:") && int(dn)+len(srcElems) <= dst.Cap {
		if arr, ok := dst.O.V.(*ArrayV); ok && len(dst.P) == 0 && dst.Off+int(dn)+len(srcElems) <= len(arr.E) {
			for i, v := range srcElems {
				e.store(&PtrV{O: dst.O, Path: []int{dst.Off + int(dn) + i}}, v, site)
			}
			return &SliceV{O: dst.O, P: dst.P, Off: dst.Off, Len: cbv(uint64(int(dn)+len(srcElems)), 64), Cap: dst.Cap}
		}
	}
	// beyond capacity: reallocate (the new capacity is exactly the new length here; code that relies on the
	// runtime's growth policy for aliasing between later appends is out of scope)
	narr := &ArrayV{E: make([]Value, 0, int(dn)+len(srcElems))}
	for i := 0; i < int(dn); i++ {
		narr.E = append(narr.E, e.sliceElem(dst, i))
	}
	narr.E = append(narr.E, srcElems...)
	o := e.newObj(narr, "append")
	return &SliceV{O: o, Len: cbv(uint64(len(narr.E)), 64), Cap: len(narr.E)}
}

func (e *Exec) copyOp(args []Value, site string) Value {
	dst := args[0].(*SliceV)
	var src *SliceV
	switch s := args[1].(type) {
	case *SliceV:
		src = s
	case *StrV:
		src = e.strToBytes(s)
	default:
		e.unsupported("copy from %T", args[1])
	}
	dn, ok := concInt(dst.Len)
	if !ok {
		dn = int64(e.concretize(dst.Len, dst.Cap+1))
	}
	sn, ok := concInt(src.Len)
	if !ok {
		sn = int64(e.concretize(src.Len, src.Cap+1))
	}
	n := dn
	if sn < n {
		n = sn
	}
	vals := make([]Value, n)
	for i := 0; i < int(n); i++ {
		vals[i] = e.sliceElem(src, i)
	}
	for i := 0; i < int(n); i++ {
		e.store(&PtrV{O: dst.O, Path: appendPath(dst.P, dst.Off+i)}, vals[i], site)
	}
	return cbv(uint64(n), 64)
}

// ---------- maps ----------

func keyOf(v Value) (interface{}, bool) {
	switch x := v.(type) {
	case *StrV:
		if x.C != nil {
			return "s:" + *x.C, true
		}
	case *BV:
		if x.C != nil {
			return *x.C, true
		}
	case *BoolV:
		if x.C != nil {
			return *x.C, true
		}
	case *PtrV:
		return fmt.Sprintf("p:%p:%v", x.O, x.Path), true
	case *IfaceV:
		if x.T == nil {
			return "nil-iface", true
		}
		k, ok := keyOf(x.V)
		if ok {
			return x.T.String() + "/" + fmt.Sprint(k), true
		}
	case *StructV:
		var parts []string
		for _, f := range x.F {
			k, ok := keyOf(f)
			if !ok {
				return nil, false
			}
			parts = append(parts, fmt.Sprint(k))
		}
		return "{" + strings.Join(parts, ",") + "}", true
	case *ArrayV:
		var parts []string
		for _, f := range x.E {
			k, ok := keyOf(f)
			if !ok {
				return nil, false
			}
			parts = append(parts, fmt.Sprint(k))
		}
		return "[" + strings.Join(parts, ",") + "]", true
	}
	return nil, false
}

func (e *Exec) mapFindConcrete(m *MapObj, k Value) int {
	kk, ok := keyOf(k)
	if !ok {
		e.unsupported("symbolic map key (delete/update)")
	}
	for i, ek := range m.K {
		c, ok := keyOf(ek)
		if !ok {
			e.unsupported("map with symbolic keys")
		}
		if c == kk {
			return i
		}
	}
	return -1
}

func (e *Exec) mapTouch(m *MapObj, site string) {
	if e.initDone && m.Born <= e.initSeq {
		if _, ok := e.initMapSaved[m]; ok {
			e.dirtyMaps = append(e.dirtyMaps, m)
		}
	}
	if e.monitorOn && e.initMode == 0 && m.Born <= e.monitorEpoch && !isGhostTag(m.Tag) {
		fn := ""
		if e.curFn != nil {
			fn = e.curFn.String()
		}
		e.writes = append(e.writes, WriteRec{Tag: m.Tag + "|map", Site: site, Fn: fn})
	}
}

// valEq builds the equality of two scalar-ish values as a Bool term.
func (e *Exec) valEq(a, b Value) *BoolV {
	switch x := a.(type) {
	case *StrV:
		y := b.(*StrV)
		if x.C != nil && y.C != nil {
			return cbool(*x.C == *y.C)
		}
		return &BoolV{T: "(= " + x.T + " " + y.T + ")"}
	case *BV:
		return bvbin(token.EQL, x, b.(*BV), false).(*BoolV)
	case *BoolV:
		return beq(x, b.(*BoolV))
	case *StructV:
		y := b.(*StructV)
		acc := cbool(true)
		for i := range x.F {
			acc = band(acc, e.valEq(e.force(x.F[i]), e.force(y.F[i])))
		}
		return acc
	case *ArrayV:
		y := b.(*ArrayV)
		acc := cbool(true)
		for i := range x.E {
			acc = band(acc, e.valEq(e.force(x.E[i]), e.force(y.E[i])))
		}
		return acc
	case *PtrV:
		y, ok := b.(*PtrV)
		if !ok {
			return cbool(false)
		}
		return cbool(x.O == y.O && pathEq(x.Path, y.Path))
	case *IfaceV:
		y, ok := b.(*IfaceV)
		if !ok {
			return cbool(false)
		}
		if x.T == nil || y.T == nil {
			return cbool(x.T == nil && y.T == nil)
		}
		if !types.Identical(x.T, y.T) {
			return cbool(false)
		}
		return e.valEq(x.V, y.V)
	case *OpaqueV:
		y, ok := b.(*OpaqueV)
		if ok {
			if fx, ok1 := x.N.(float64); ok1 {
				if fy, ok2 := y.N.(float64); ok2 {
					return cbool(fx == fy)
				}
			}
			return cbool(x == y || x.N == y.N)
		}
	case *FuncV:
		y, ok := b.(*FuncV)
		if ok && (x.Fn == nil || y.Fn == nil) {
			return cbool(x.Fn == nil && y.Fn == nil)
		}
	case *SliceV:
		y, ok := b.(*SliceV)
		if ok {
			// only comparison with nil is legal Go
			if y.O == nil && y.NilSym == "" {
				return e.sliceIsNil(x)
			}
			if x.O == nil && x.NilSym == "" {
				return e.sliceIsNil(y)
			}
		}
	case *MapV:
		y, ok := b.(*MapV)
		if ok {
			if y.M == nil {
				return cbool(x.M == nil)
			}
			if x.M == nil {
				return cbool(y.M == nil)
			}
		}
	}
	e.unsupported("equality of %T and %T", a, b)
	return nil
}

func (e *Exec) sliceIsNil(s *SliceV) *BoolV {
	if s.NilSym != "" {
		return &BoolV{T: s.NilSym}
	}
	return cbool(s.O == nil)
}

func (e *Exec) mapUpdate(m *MapV, k, v Value, site string) {
	if m.M == nil {
		panic(goPanic{msg: "assignment to entry in nil map", site: site})
	}
	if m.M.Lazy != nil {
		e.unsupported("update of lazy input map")
	}
	e.mapTouch(m.M, site)
	if _, ok := keyOf(k); ok {
		allc := true
		for _, ek := range m.M.K {
			if _, ok := keyOf(ek); !ok {
				allc = false
			}
		}
		if allc {
			if i := e.mapFindConcrete(m.M, k); i >= 0 {
				nv := append([]Value{}, m.M.V...)
				nv[i] = v
				m.M.V = nv
			} else {
				m.M.K = append(append([]Value{}, m.M.K...), k)
				m.M.V = append(append([]Value{}, m.M.V...), v)
			}
			return
		}
	}
	// symbolic key: decide by forking which existing entry (if any) it equals
	for i, ek := range m.M.K {
		if e.branch(e.valEq(ek, k)) {
			nv := append([]Value{}, m.M.V...)
			nv[i] = v
			m.M.V = nv
			return
		}
	}
	m.M.K = append(append([]Value{}, m.M.K...), k)
	m.M.V = append(append([]Value{}, m.M.V...), v)
}

func (e *Exec) lookup(fr *frame, x *ssa.Lookup) Value {
	base := e.get(fr, x.X)
	site := e.pos2s(x.Pos())
	if st, ok := base.(*StrV); ok {
		idx := e.get(fr, x.Index).(*BV)
		_, sg := width(x.Index.Type())
		return e.strIndex(st, resize(idx, 64, sg), site)
	}
	m, ok := base.(*MapV)
	if !ok {
		e.unsupported("lookup on %T", base)
	}
	mt := x.X.Type().Underlying().(*types.Map)
	k := e.get(fr, x.Index)
	val, found := e.mapLookup(m, k, mt)
	if x.CommaOk {
		return &TupleV{E: []Value{val, found}}
	}
	return val
}

func (e *Exec) mapLookup(m *MapV, k Value, mt *types.Map) (Value, *BoolV) {
	zero := e.zero(mt.Elem())
	if m.M == nil {
		return zero, cbool(false)
	}
	if m.M.Lazy != nil {
		return e.lazyMapLookup(m.M, k, mt)
	}
	if kk, ok := keyOf(k); ok {
		allc := true
		for i, ek := range m.M.K {
			c, ok := keyOf(ek)
			if !ok {
				allc = false
				break
			}
			if c == kk {
				return e.force(m.M.V[i]), cbool(true)
			}
		}
		if allc {
			return zero, cbool(false)
		}
	}
	// symbolic: try an ite chain over the entries, fall back to forking
	if len(m.M.K) <= 4 || !e.mergeable(zero) {
		for i, ek := range m.M.K {
			if e.branch(e.valEq(ek, k)) {
				return e.force(m.M.V[i]), cbool(true)
			}
		}
		return zero, cbool(false)
	}
	val := zero
	found := cbool(false)
	conds := make([]*BoolV, len(m.M.K))
	exclusive := true
	for i := len(m.M.K) - 1; i >= 0; i-- {
		c := e.valEq(m.M.K[i], k)
		conds[i] = c
		if _, ok := keyOf(m.M.K[i]); !ok {
			exclusive = false
		}
		nv, ok := e.ite(c, e.force(m.M.V[i]), val)
		if !ok {
			e.unsupported("unmergeable map values in symbolic lookup")
		}
		val = nv
		found = bor(c, found)
	}
	if exclusive {
		// distinct concrete keys: the conditions are mutually exclusive, so string
		// leaves that are concrete in every entry become finite-choice strings
		vals := make([]Value, len(m.M.V))
		for i := range vals {
			vals[i] = e.force(m.M.V[i])
		}
		val = e.withAlts(val, conds, vals, zero)
	}
	// long ite chains are named to keep terms small
	return e.nameValue(val, "lk"), e.nameBool(found, "lkf")
}

func (e *Exec) mergeable(v Value) bool {
	switch x := v.(type) {
	case *BV, *BoolV, *StrV:
		return true
	case *StructV:
		for _, f := range x.F {
			if !e.mergeable(f) {
				return false
			}
		}
		return true
	case *ArrayV:
		for _, f := range x.E {
			if !e.mergeable(f) {
				return false
			}
		}
		return true
	}
	return false
}

func (e *Exec) nameBool(b *BoolV, pfx string) *BoolV {
	if b.C != nil || len(b.T) < 200 {
		return b
	}
	n := e.fresh(pfx, "Bool")
	e.assume("(= " + n + " " + b.T + ")")
	return &BoolV{T: n}
}

func (e *Exec) nameValue(v Value, pfx string) Value {
	switch x := v.(type) {
	case *BV:
		if x.C != nil || len(x.T) < 200 {
			return x
		}
		n := e.fresh(pfx, fmt.Sprintf("(_ BitVec %d)", x.W))
		e.assume("(= " + n + " " + x.T + ")")
		return &BV{T: n, W: x.W}
	case *BoolV:
		return e.nameBool(x, pfx)
	case *StrV:
		if x.C != nil || len(x.T) < 200 {
			return x
		}
		n := e.fresh(pfx, "String")
		e.assume("(= " + n + " " + x.T + ")")
		return &StrV{T: n, Alts: x.Alts, Else: x.Else, OID: x.OID}
	case *StructV:
		n := &StructV{F: make([]Value, len(x.F))}
		for i := range x.F {
			n.F[i] = e.nameValue(x.F[i], pfx)
		}
		return n
	}
	return v
}

// ite merges two values under a condition when both are scalar trees.
func (e *Exec) ite(c *BoolV, a, b Value) (Value, bool) {
	if c.C != nil {
		if *c.C {
			return a, true
		}
		return b, true
	}
	switch x := a.(type) {
	case *BV:
		y, ok := b.(*BV)
		if !ok {
			return nil, false
		}
		return bvIte(c, x, y), true
	case *BoolV:
		y, ok := b.(*BoolV)
		if !ok {
			return nil, false
		}
		if x.C != nil && y.C != nil && *x.C == *y.C {
			return x, true
		}
		return &BoolV{T: "(ite " + c.T + " " + x.T + " " + y.T + ")"}, true
	case *StrV:
		y, ok := b.(*StrV)
		if !ok {
			return nil, false
		}
		if x.C != nil && y.C != nil && *x.C == *y.C {
			return x, true
		}
		return &StrV{T: "(ite " + c.T + " " + x.T + " " + y.T + ")"}, true
	case *StructV:
		y, ok := b.(*StructV)
		if !ok || len(x.F) != len(y.F) {
			return nil, false
		}
		n := &StructV{F: make([]Value, len(x.F))}
		for i := range x.F {
			v, ok := e.ite(c, e.force(x.F[i]), e.force(y.F[i]))
			if !ok {
				return nil, false
			}
			n.F[i] = v
		}
		return n, true
	case *ArrayV:
		y, ok := b.(*ArrayV)
		if !ok || len(x.E) != len(y.E) {
			return nil, false
		}
		n := &ArrayV{E: make([]Value, len(x.E))}
		for i := range x.E {
			v, ok := e.ite(c, e.force(x.E[i]), e.force(y.E[i]))
			if !ok {
				return nil, false
			}
			n.E[i] = v
		}
		return n, true
	case *PtrV:
		y, ok := b.(*PtrV)
		if ok && x.O == y.O && pathEq(x.Path, y.Path) {
			return x, true
		}
	case *IfaceV:
		y, ok := b.(*IfaceV)
		if ok && x.T == nil && y.T == nil {
			return x, true
		}
	}
	return nil, false
}

type mapIter struct {
	m     *MapObj
	order []int
	pos   int
	str   *StrV
	spos  *BV
}

func (e *Exec) rangeInit(fr *frame, x *ssa.Range) Value {
	base := e.get(fr, x.X)
	switch b := base.(type) {
	case *MapV:
		it := &mapIter{}
		if b.M != nil {
			if b.M.Lazy != nil {
				e.unsupported("range over lazy input map")
			}
			it.m = b.M
			n := len(b.M.K)
			it.order = make([]int, n)
			for i := range it.order {
				it.order[i] = i
			}
			switch {
			case e.cfg.MapOrder == "reverse":
				for i := range it.order {
					it.order[i] = n - 1 - i
				}
			case strings.HasPrefix(e.cfg.MapOrder, "rot"):
				for i := range it.order {
					it.order[i] = (i + 1) % n
				}
			}
			if n > 1 {
				e.notes["map-range"] = e.pos2s(x.Pos())
			}
		}
		return &OpaqueV{N: it}
	case *StrV:
		return &OpaqueV{N: &mapIter{str: b, spos: cbv(0, 64)}}
	}
	e.unsupported("range over %T", base)
	return nil
}

func (e *Exec) rangeNext(fr *frame, x *ssa.Next) Value {
	it := e.get(fr, x.Iter).(*OpaqueV).N.(*mapIter)
	if x.IsString {
		return e.strRangeNext(it, e.pos2s(x.Pos()))
	}
	mt := x.Iter.(*ssa.Range).X.Type().Underlying().(*types.Map)
	if it.m == nil || it.pos >= len(it.order) {
		return &TupleV{E: []Value{cbool(false), e.zero(mt.Key()), e.zero(mt.Elem())}}
	}
	i := it.order[it.pos]
	it.pos++
	if i >= len(it.m.K) {
		return &TupleV{E: []Value{cbool(false), e.zero(mt.Key()), e.zero(mt.Elem())}}
	}
	return &TupleV{E: []Value{cbool(true), it.m.K[i], e.force(it.m.V[i])}}
}
