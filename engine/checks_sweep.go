package main

import (
	"fmt"
	"os"
	"sort"
	"strconv"
	"strings"
	"time"

	"golang.org/x/tools/go/ssa"
)

type sweepLint struct {
	Name string
	Kind int
}

// registeredLints lists the lints by executing the init chain once in a scratch executor.
func registeredLints(c *Check) []sweepLint {
	cfg := defaultConfig()
	s := NewSolver(cfg.Solver, cfg.TimeoutMs, "")
	defer s.Close()
	e := NewExec(c.Ld.Prog, cfg)
	e.s = s
	root := c.Ld.Pkg(rootPkg)
	e.runInit(root)
	e.FinishInit()
	var out []sweepLint
	lp := c.Ld.Pkg(lintPkg)
	g, _ := lp.Members["globalRegistry"].(*ssa.Global)
	if g == nil {
		return nil
	}
	reg := e.global(g).V
	p, ok := reg.(*PtrV)
	if !ok || p.O == nil {
		return nil
	}
	rs, ok := e.force(p.O.V).(*StructV)
	if !ok {
		return nil
	}
	// registryImpl{certificateLints, ocspResponseLints, revocationListLints, configuration}; each lookup impl embeds linterLookupImpl{RWMutex, lintNames, sources}
	for fi, kind := range map[int]int{0: 0, 1: 2, 2: 1} {
		lk, ok := e.force(rs.F[fi]).(*StructV)
		if !ok {
			continue
		}
		base, ok := e.force(lk.F[0]).(*StructV)
		if !ok {
			continue
		}
		names, ok := e.force(base.F[1]).(*SliceV)
		if !ok {
			continue
		}
		n, _ := concInt(names.Len)
		for i := 0; i < int(n); i++ {
			if s, ok := concStr(e.sliceElem(names, i)); ok {
				out = append(out, sweepLint{s, kind})
			}
		}
	}
	sort.Slice(out, func(i, j int) bool { return out[i].Name < out[j].Name })
	return out
}

var sweepFuncs = []string{"VerifSweepCert", "VerifSweepCRL", "VerifSweepOCSP"}

func sweepTune(c *Check, prop string) func(cf *Config) {
	return func(cf *Config) {
		cf.AutoUF = true
		scopeStubs(cf) // the scope predicates are arbitrary constants here; C04 checks them against their oracle
		cf.StrParams["sweep.prop"] = prop
		cf.UnwindAssume = false
		cf.MaxPaths = 1500
		budget := 15 * time.Second
		cf.ListBound, cf.ByteBound = 1, 4
		cf.Bounds["split"] = 4
		if !c.Quick() {
			cf.Bounds["split"] = 6
			budget = 10 * time.Minute
			cf.MaxPaths = 40000
			cf.ListBound, cf.ByteBound = 2, 8
		}
		if v, err := strconv.Atoi(os.Getenv("SYMGO_SWEEP_BUDGET_S")); err == nil && v > 0 {
			budget = time.Duration(v) * time.Second
		}
		cf.Deadline = time.Now().Add(budget)
		for _, m := range []string{"(github.com/zmap/zcrypto/encoding/asn1.ObjectIdentifier).Equal", "(encoding/asn1.ObjectIdentifier).Equal"} {
			cf.Merge[m] = true
		}
	}
}

func addSweepJobs(c *Check, prop string, only func(name string) bool) []sweepLint {
	lints := registeredLints(c)
	if f := os.Getenv("SYMGO_SWEEP_ONLY"); f != "" {
		var keep []sweepLint
		for _, l := range lints {
			if strings.Contains(l.Name, f) {
				keep = append(keep, l)
			}
		}
		lints = keep
	}
	for _, l := range lints {
		l := l
		if only != nil && !only(l.Name) {
			continue
		}
		tune := sweepTune(c, prop)
		c.Add(&Job{Label: "sweep/" + l.Name, Pkg: rootPkg, Func: sweepFuncs[l.Kind], Sweep: true, NoReplay: true,
			Tune: func(cf *Config) { tune(cf); cf.StrParams["sweep.lint"] = l.Name }})
	}
	if c.Quick() && os.Getenv("SYMGO_NO_DEEPEN") == "" {
		// second pass at lists <= 2 under a short budget: what it finds counts, what it does not finish does
		// not change a lint's "decided at lists <= 1" status (accumulation / ordering / duplicate defects need
		// two elements to show)
		for _, l := range lints {
			l := l
			if only != nil && !only(l.Name) {
				continue
			}
			tune := sweepTune(c, prop)
			c.Add(&Job{Label: "sweep2/" + l.Name, Pkg: rootPkg, Func: sweepFuncs[l.Kind], Sweep: true, NoReplay: true,
				KeyOf: func(f *AssertFail) string { return "sweep/" + l.Name + ": " + f.Msg },
				Tune: func(cf *Config) {
					tune(cf)
					cf.StrParams["sweep.lint"] = l.Name
					cf.ListBound = 2
					cf.Deadline = time.Now().Add(8 * time.Second)
				}})
		}
	}
	return lints
}

func init() {
	checks["C06"] = func(c *Check) {
		c.Technique = "symbolic execution of go/ssa + SMT (z3): every registered lint run through the real framework entry on an arbitrary parsed object; the severity/prefix rule asserted on every return path"
		c.Assume("P1-P6 parser invariants on the symbolic object (DESIGN.md section 4); callees outside the executed set are uninterpreted pure functions (listed under stubs_used)")
		lints := addSweepJobs(c, "C06", nil)
		c.Extra["lints_total"] = len(lints)
		c.Post = sweepPost
	}
}

// sweepPost summarises the per-lint outcomes (decided / not decided and why).
func sweepPost(c *Check) {
	decided, undecided := 0, 0
	deep2, deep2Paths := 0, 0
	reasons := map[string][]string{}
	for _, jr := range c.Results {
		if jr == nil || !jr.Job.Sweep {
			continue
		}
		if strings.HasPrefix(jr.Job.Label, "sweep2/") {
			if jr.Res != nil {
				deep2Paths += len(jr.Res.Paths)
				if !jr.Res.Truncated && jr.Err == "" {
					deep2++
				}
			}
			continue
		}
		name := strings.TrimPrefix(jr.Job.Label, "sweep/")
		why := ""
		switch {
		case jr.Err != "":
			why = "engine: " + jr.Err
		case jr.Res == nil:
			why = "no result"
		default:
			r := jr.Res
			if r.Truncated {
				why = "budget"
			}
			for k := range r.Ends {
				for _, pfx := range []string{"unsupported", "unwind:", "engine-error", "depth", "deadline"} {
					if strings.HasPrefix(k, pfx) && why == "" {
						why = k
					}
				}
			}
			if len(r.Inconclusive) > 0 && why == "" {
				why = "undecided assertion"
			}
			if r.Covers["result"] == 0 && r.Covers["both run"] == 0 && why == "" {
				why = "no returning path"
			}
		}
		if why == "" {
			decided++
		} else {
			undecided++
			if len(why) > 110 {
				why = why[:110]
			}
			reasons[why] = append(reasons[why], name)
		}
	}
	c.Extra["second_pass_lists_le_2"] = map[string]int{"lints_finished_within_budget": deep2, "paths": deep2Paths}
	c.Extra["lints_decided"] = decided
	c.Extra["lints_not_decided"] = undecided
	c.Extra["not_decided_by_reason"] = reasons
	fmt.Printf("sweep: %d lints decided, %d not decided\n", decided, undecided)
}

// monitorFinding turns an observation of the engine's monitors on a feasible
// path into a finding.  It counts as confirmed when the path is free of
// uninterpreted stubs (then the path is realisable as explored); otherwise it is
// listed as an unconfirmed candidate.
func monitorFinding(c *Check, jr *JobResult, p *PathRec, what string) {
	conf := "yes"
	st := p.Stubs
	if _, ok := st["env:time.Now"]; ok {
		// the clock may show any instant, so a path that read it is realisable whatever it then branched on
		st = map[string]int{}
		for k, v := range p.Stubs {
			if k != "env:time.Now" {
				st[k] = v
			}
		}
	}
	if _, ok := st["uf:x509.CheckSignatureFromKey"]; ok {
		// handing the signature to the verification routine is itself the observation (C09); that stub does
		// not make the path unrealisable
		st2 := map[string]int{}
		for k, v := range st {
			if k != "uf:x509.CheckSignatureFromKey" {
				st2[k] = v
			}
		}
		st = st2
	}
	if usesUnreplayable(st) {
		conf = "no"
	}
	c.Findings = append(c.Findings, &Finding{Key: strings.Replace(jr.Job.Label, "sweep2/", "sweep/", 1) + ": " + what, Msg: what, Func: jr.Job.Func, Pkg: jr.Job.Pkg, Kind: "side", Confirmed: conf, Site: p.Site,
		ReplayOut: "observed by the engine's monitor on a path that passes through uninterpreted stubs"})
}

func eachSweepPath(c *Check, f func(jr *JobResult, name string, p *PathRec)) {
	for _, jr := range c.Results {
		if jr == nil || jr.Res == nil || !jr.Job.Sweep {
			continue
		}
		name := strings.TrimPrefix(strings.TrimPrefix(jr.Job.Label, "sweep/"), "sweep2/")
		for i := range jr.Res.Paths {
			p := &jr.Res.Paths[i]
			if p.End == "infeasible" {
				continue
			}
			f(jr, name, p)
		}
	}
}

// addReadOnlyHelperJobs: the shared helpers that build "DNS names plus common name" lists by append are
// run on their own on an arbitrary certificate (lists <= 2, with and without spare capacity) under the
// write monitor.  They sit in the applicability tests of several lints, so a store into the certificate
// there is also a channel between lints (C07).
func addReadOnlyHelperJobs(c *Check) {
	tune := func(cf *Config) { cf.ListBound = 2; cf.AltSolver, cf.AltTimeoutMs, cf.TimeoutMs = "cvc5", 8000, 3000 }
	c.Add(&Job{Label: "helpers/CertificateSubjInTLD", Pkg: utilPkg, Func: "VerifC05SubjInTLD", MustCover: []string{"in the TLD", "not in the TLD"}, NoReplay: true, Tune: tune})
	// (IsOnionV3Cert / IsOnionV2Cert - same append idiom - were tried on their own: the base32/regexp string
	// constraints make every query cost 10-40 s in z3 and cvc5; they are covered through the lint sweep only)
}

var timeNowAllowed = map[string]bool{"w_sub_cert_aia_contains_internal_names": true, "w_smime_aia_contains_internal_names": true}

func init() {
	checks["C02"] = func(c *Check) {
		c.Technique = "symbolic execution of go/ssa + SMT (z3): every registered lint run through the real framework entry on an arbitrary parsed object with every implicit panic site (nil dereference, index/slice bounds, failed type assertion, division by zero, nil map write, explicit panic) as an assertion"
		c.Assume("P1-P6 parser invariants; panics inside stubbed callees (reflection-based asn1.Unmarshal, regexp, publicsuffix, url.Parse) and inputs beyond the bounds are outside the claim")
		lints := addSweepJobs(c, "C02", nil)
		for _, j := range c.Jobs {
			if j.Sweep && j.Func != "VerifSweepCert" {
				j.PanicsAreFindings = true
			}
		}
		c.Extra["lints_total"] = len(lints)
		c.Post = sweepPost
	}
	checks["C05"] = func(c *Check) {
		c.Technique = "symbolic execution of go/ssa + SMT (z3) with monitors: every store on every path of every lint is classified (fresh memory / the linted object / memory reachable from package variables), every call leaving the executed set is classified (pure stub / clock / forbidden effect); lints that range over maps are run twice under different iteration orders and compared (self-composition)"
		c.Assume("effects inside stubbed standard-library callees are trusted to be pure; iteration orders explored: insertion order, reverse, rotation by one")
		lints := addSweepJobs(c, "C05", nil)
		c.Extra["lints_total"] = len(lints)
		addReadOnlyHelperJobs(c)
		c.Post = func(c *Check) {
			sweepPost(c)
			eachSweepPath(c, func(jr *JobResult, name string, p *PathRec) {
				for _, w := range p.Writes {
					switch {
					case strings.Contains(w.Tag, "|unexported:"):
						// zcrypto's parse caches: not an exported field
					case strings.HasPrefix(w.Tag, "global:"):
						monitorFinding(c, jr, p, "store to memory reachable from a package variable ("+w.Tag+") at "+w.Site)
					case strings.HasPrefix(w.Tag, "input:"), strings.HasPrefix(w.Tag, "lazy:"):
						monitorFinding(c, jr, p, "store into the linted object ("+w.Tag+") at "+w.Site)
					case strings.HasPrefix(w.Tag, "published:"):
						monitorFinding(c, jr, p, "store into memory the linted object already holds, e.g. a parse cache ("+w.Tag+") at "+w.Site)
					}
				}
				for _, ef := range p.Effects {
					if ef == "time.Now" && timeNowAllowed[name] {
						continue
					}
					monitorFinding(c, jr, p, "effect "+ef)
				}
			})
		}
	}
	checks["C09"] = func(c *Check) {
		c.Technique = "symbolic execution of go/ssa + SMT (z3) with taint by lazy materialisation: an input symbol exists on a path only if the path read it, so a path whose symbol set contains no byte of Certificate.Signature cannot depend on the signature value"
		c.Assume("SelfSigned is false (the property's premise; P2); Signature bytes are symbolic with symbolic length; lints that hand all of Certificate.Raw to the reflection-based DER decoder are listed as not decided")
		lints := addSweepJobs(c, "C09", func(n string) bool { return true })
		var keep []*Job
		for _, j := range c.Jobs {
			if j.Sweep && j.Func != "VerifSweepCert" {
				continue
			}
			t := j.Tune
			j.Tune = func(cf *Config) { t(cf); cf.RecordInputs = true }
			keep = append(keep, j)
		}
		c.Jobs = keep
		// the entry point itself (with an empty global registry: only package lint is initialised)
		c.Add(&Job{Label: "sweep/LintCertificateEx (entry point, empty registry)", Pkg: rootPkg, Func: "VerifC09Entry", InitPkg: lintPkg, Sweep: true, NoReplay: true,
			Tune: func(cf *Config) {
				cf.AutoUF = true
				cf.RecordInputs = true
				cf.ListBound, cf.ByteBound = 1, 4
				cf.Deadline = time.Now().Add(60 * time.Second)
			}})
		c.Extra["lints_total"] = len(lints)
		c.Post = func(c *Check) {
			sweepPost(c)
			rawReaders := map[string]bool{}
			eachSweepPath(c, func(jr *JobResult, name string, p *PathRec) {
				for _, sy := range p.InputSyms {
					s := strings.Trim(sy, "|")
					if strings.HasPrefix(s, "c.Signature[") {
						monitorFinding(c, jr, p, "a path reads a byte of the signature value ("+s+")")
						if strings.HasPrefix(jr.Job.Label, "sweep/LintCertificateEx") {
							// the entry point's own read: whatever stubs the lints that ran afterwards passed through
							// do not bear on it
							c.Findings[len(c.Findings)-1].Confirmed = "yes"
						}
						break
					}
					if strings.HasPrefix(s, "c.Raw[") {
						rawReaders[name] = true
					}
				}
			})
			var rr []string
			for n := range rawReaders {
				rr = append(rr, n)
			}
			sortStrings(rr)
			c.Extra["lints_reading_raw_certificate_bytes_not_decided"] = rr
		}
	}
	checks["C10"] = func(c *Check) {
		c.Technique = "symbolic execution of go/ssa + SMT (z3), one goroutine: the sufficient condition 'no path of any lint, lookup, Filter or listing stores to memory shared between goroutines, and every lock taken is released on every path' is decided; schedules are NOT explored"
		c.Assume("race freedom and concurrent==sequential follow from disjoint write sets on paper, not by the solver; stubbed callees (regexp pools, publicsuffix list, go-toml reads) are documented as safe for concurrent use")
		lints := addSweepJobs(c, "C10", nil)
		c.Extra["lints_total"] = len(lints)
		c.Add(&Job{Pkg: lintPkg, Func: "VerifC10Lookups", MustCover: []string{"lookups"}, NoReplay: true})
		c.Post = func(c *Check) {
			sweepPost(c)
			eachSweepPath(c, func(jr *JobResult, name string, p *PathRec) {
				for _, w := range p.Writes {
					if strings.HasPrefix(w.Tag, "global:") {
						monitorFinding(c, jr, p, "store to memory shared between goroutines ("+w.Tag+") at "+w.Site)
					}
				}
				if p.LocksHeld > 0 && p.End == "return" {
					monitorFinding(c, jr, p, "a lock is still held when the call returns")
				}
			})
		}
	}
}

var c17SanRe = []string{"dnsname", "_san_", "ext_san", "san_", "_ian_", "ext_ian", "ian_", "wildcard", "international_dns", "idn", "subject_contains_reserved", "onion"}

func c17Selected(n string) bool {
	for _, k := range c17SanRe {
		if strings.Contains(n, k) {
			return true
		}
	}
	return false
}

func init() {
	checks["C17"] = func(c *Check) {
		c.Technique = "symbolic execution of go/ssa + SMT (z3), self-composition: a lint is run on an arbitrary certificate and on the same certificate with its general-name lists (or its extension list) reversed; statuses compared.  Per-name stubs are uninterpreted functions of the name, so they permute with it; a second, replayable variant draws DNS names from a concrete pool and evaluates the public suffix list natively"
		c.Assume("lists of at most two entries (reversal is then every non-trivial permutation); the extension list has no duplicated OID (the property's premise)")
		lints := registeredLints(c)
		only := os.Getenv("SYMGO_SWEEP_ONLY")
		n := 0
		for _, l := range lints {
			l := l
			if l.Kind != 0 || (only != "" && !strings.Contains(l.Name, only)) {
				continue
			}
			base := sweepTune(c, "C17")
			if c17Selected(l.Name) {
				n++
				c.Add(&Job{Label: "order/san/" + l.Name, Pkg: rootPkg, Func: "VerifC17Order", Sweep: true, NoReplay: true,
					Tune: func(cf *Config) {
						base(cf)
						cf.ListBound = 2
						cf.StrParams["sweep.lint"] = l.Name
						cf.StrParams["c17.what"] = "san"
						if c.Quick() {
							cf.Deadline = time.Now().Add(45 * time.Second)
						}
					}})
				if strings.Contains(l.Name, "dnsname") || strings.Contains(l.Name, "wildcard") {
					c.Add(&Job{Label: "order/pool/" + l.Name, Pkg: rootPkg, Func: "VerifC17Order", Sweep: true, NoReplay: true,
						Tune: func(cf *Config) {
							base(cf)
							cf.StrParams["sweep.lint"] = l.Name
							cf.StrParams["c17.what"] = "san"
							cf.Bounds["param:c17.pool"] = 1
							cf.Deadline = time.Now().Add(60 * time.Second)
						}})
				}
			}
			if c17Selected(l.Name) && strings.Contains(l.Name, "uri") {
				pv := 2
				if strings.Contains(l.Name, "ian") {
					pv = 3
				}
				c.Add(&Job{Label: "order/uripool/" + l.Name, Pkg: rootPkg, Func: "VerifC17Order", Sweep: true, NoReplay: true,
					KeyOf: func(f *AssertFail) string { return "order/san/" + l.Name + ": " + f.Msg },
					Tune: func(cf *Config) {
						base(cf)
						cf.StrParams["sweep.lint"] = l.Name
						cf.StrParams["c17.what"] = "san"
						cf.Bounds["param:c17.pool"] = pv
						cf.Deadline = time.Now().Add(60 * time.Second)
					}})
			}
			if extOrderLints[l.Name] {
				c.Add(&Job{Label: "order/ext/" + l.Name, Pkg: rootPkg, Func: "VerifC17Order", Sweep: true, NoReplay: true,
					Tune: func(cf *Config) {
						base(cf)
						cf.Bounds["*.Extensions"] = 2
						cf.StrParams["sweep.lint"] = l.Name
						cf.StrParams["c17.what"] = "ext"
					}})
			}
		}
		c.Extra["lints_selected"] = n
		c.Post = func(c *Check) {
			sweepPost(c)
			// a lint that rewrites the certificate's lists or its parse caches makes what later lints see depend on
			// where an entry sat: reported here as well (the stores are observed by the write monitor)
			for _, jr := range c.Results {
				if jr == nil || jr.Res == nil || !jr.Job.Sweep {
					continue
				}
				for i := range jr.Res.Paths {
					p := &jr.Res.Paths[i]
					if p.End == "infeasible" {
						continue
					}
					for _, w := range p.Writes {
						if strings.HasPrefix(w.Tag, "published:") || (strings.HasPrefix(w.Tag, "lazy:") && !strings.Contains(w.Tag, "|unexported:")) {
							parts := strings.SplitN(jr.Job.Label, "/", 3)
							name := parts[len(parts)-1]
							conf := "yes"
							if usesUnreplayable(p.Stubs) {
								conf = "no"
							}
							c.Findings = append(c.Findings, &Finding{Key: "order/san/" + name + ": store into the certificate's name lists or parse cache (" + w.Tag + ") at " + w.Site, Msg: "a lint rewrites name lists / parse caches other lints read", Func: jr.Job.Func, Pkg: jr.Job.Pkg, Kind: "side", Confirmed: conf, Site: w.Site,
								ReplayOut: "observed by the engine's monitor"})
						}
					}
				}
			}
		}
	}
}

// lints that walk Certificate.Extensions by position (found by grep of c.Extensions in v3/lints at design time;
// the san/ian families are selected by name)
var extOrderLints = map[string]bool{"e_aia_must_contain_permitted_access_method": true, "e_crlissuer_must_not_be_present_in_cdp": true, "e_cabf_org_identifier_psd_vat_has_state": true,
	"e_cert_extensions_version_not_3": true, "e_empty_sct_list": true, "e_ext_cert_policy_disallowed_any_policy_qualifier": true, "e_ext_duplicate_extension": true}

type c20Pair struct{ a, b, kind, rel string }

var c20Pairs = []c20Pair{
	{"e_rfc_dnsname_empty_label", "e_dnsname_empty_label", "dnsrfc", "same"},
	{"e_rfc_dnsname_hyphen_in_sld", "e_dnsname_hyphen_in_sld", "dnsrfc", "same"},
	{"e_rfc_dnsname_label_too_long", "e_dnsname_label_too_long", "dnsrfc", "same"},
	{"e_rfc_dnsname_underscore_in_sld", "e_dnsname_underscore_in_sld", "dnsrfc", "same"},
	{"w_rfc_dnsname_underscore_in_trd", "w_dnsname_underscore_in_trd", "dnsrfc", "same"},
	{"e_prohibit_dsa_usage", "e_br_prohibit_dsa_usage", "br", "same"},
	{"w_sub_cert_aia_contains_internal_names", "w_smime_aia_contains_internal_names", "aia", "same"},
	{"e_ext_san_dns_not_ia5_string", "e_ext_ian_dns_not_ia5_string", "sanian", "same"},
	{"e_ext_san_empty_name", "e_ext_ian_empty_name", "sanian", "same"},
	{"e_ext_san_no_entries", "e_ext_ian_no_entries", "sanian", "same"},
	{"e_ext_san_rfc822_format_invalid", "e_ext_ian_rfc822_format_invalid", "sanian", "same"},
	{"e_ext_san_space_dns_name", "e_ext_ian_space_dns_name", "sanian", "same"},
	{"e_ext_san_uri_format_invalid", "e_ext_ian_uri_format_invalid", "sanian", "same"},
	{"e_ext_san_uri_host_not_fqdn_or_ip", "e_ext_ian_uri_host_not_fqdn_or_ip", "sanian", "same"},
	{"e_ext_san_uri_not_ia5", "e_ext_ian_uri_not_ia5", "sanian", "same"},
	{"e_ext_san_uri_relative", "e_ext_ian_uri_relative", "sanian", "same"},
	{"w_subject_dn_leading_whitespace", "w_issuer_dn_leading_whitespace", "subjiss", "same"},
	{"w_subject_dn_trailing_whitespace", "w_issuer_dn_trailing_whitespace", "subjiss", "same"},
	{"n_multiple_subject_rdn", "w_multiple_issuer_rdn", "subjiss", "finding"},
	{"e_subject_dn_country_not_printable_string", "e_issuer_dn_country_not_printable_string", "subjiss", "same"},
	{"e_tls_server_cert_valid_time_longer_than_398_days", "w_tls_server_cert_valid_time_longer_than_397_days", "plain", "implies"},
	{"e_subject_given_name_max_length", "w_subject_given_name_recommended_max_length", "plain", "implies"},
	{"e_subject_surname_max_length", "w_subject_surname_recommended_max_length", "plain", "implies"},
}

func init() {
	checks["C20"] = func(c *Check) {
		c.Technique = "symbolic execution of go/ssa + SMT (z3), relational: both members of a duplicated rule are run on one arbitrary certificate constrained to 'same content' for the pair (IAN lists := SAN lists with equal extension bytes; issuer := subject; common name empty and server-auth scope for the RFC/BR label rules); statuses compared.  Stubbed callees are shared uninterpreted functions, so both members see the same answers"
		c.Assume("'whenever both run' = neither result is NA or NE; severities that differ by design are compared as finding versus no finding")
		only := os.Getenv("SYMGO_SWEEP_ONLY")
		for _, p := range c20Pairs {
			p := p
			if only != "" && !strings.Contains(p.a+" "+p.b, only) {
				continue
			}
			base := sweepTune(c, "C20")
			c.Add(&Job{Label: "pair/" + p.a + " ~ " + p.b, Pkg: rootPkg, Func: "VerifC20Pair", Sweep: true, NoReplay: true,
				Tune: func(cf *Config) {
					base(cf)
					delete(cf.UF0, "github.com/zmap/zlint/v3/util.IsServerAuthCert")
					delete(cf.UF0, "github.com/zmap/zlint/v3/util.IsEmailProtectionCert")
					scopeStubs(cf)
					cf.ListBound = 2
					if !c.Quick() {
						cf.ListBound = 3
					}
					cf.StrParams["c20.a"], cf.StrParams["c20.b"], cf.StrParams["c20.kind"], cf.StrParams["c20.rel"] = p.a, p.b, p.kind, p.rel
					if c.Quick() {
						cf.Deadline = time.Now().Add(60 * time.Second)
					}
				}})
		}
		// replayable pool variants for the pairs whose content passes through stubbed parsers
		for _, p := range c20Pairs {
			p := p
			if p.kind != "dnsrfc" && p.kind != "aia" || only != "" && !strings.Contains(p.a+" "+p.b, only) {
				continue
			}
			base := sweepTune(c, "C20")
			c.Add(&Job{Label: "pool/" + p.a + " ~ " + p.b, Pkg: rootPkg, Func: "VerifC20Pair", Sweep: true, NoReplay: true,
				KeyOf: func(f *AssertFail) string { return "pair/" + p.a + " ~ " + p.b + ": " + f.Msg },
				Tune: func(cf *Config) {
					base(cf)
					// the certificate is concretely in scope: the real scope predicates decide
					cf.UF0 = map[string]bool{}
					cf.ListBound = 2
					cf.Bounds["param:c20.pool"] = 1
					cf.Bounds["split"] = 8
					cf.StrParams["c20.a"], cf.StrParams["c20.b"], cf.StrParams["c20.kind"], cf.StrParams["c20.rel"] = p.a, p.b, p.kind, p.rel
					cf.Deadline = time.Now().Add(90 * time.Second)
				}})
		}
		c.Extra["pairs"] = len(c20Pairs)
		c.Post = sweepPost
	}
}
