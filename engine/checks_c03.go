package main

const lintPkg = zlintMod + "/lint"
const utilPkg = zlintMod + "/util"
const rootPkg = zlintMod

func init() {
	checks["C03"] = func(c *Check) {
		c.Technique = "symbolic execution of go/ssa + SMT (z3): window kernel vs oracle, framework placement with stub lints"
		c.Assume("P1: times have no monotonic reading, 0 <= nsec < 1e9, |seconds since year 1| < 2^55, location nil (UTC) - what encoding/asn1 time parsing yields")
		cal := func(cf *Config) { cf.Calendar = true }
		c.Add(&Job{Pkg: lintPkg, Func: "VerifC03CheckEffective", MustCover: []string{"in-window", "out-of-window"}, Tune: cal})
		c.Assume("time zones: each of the three instants is in UTC or in a fixed zone with an arbitrary offset of less than a day (what DER times with a +hhmm offset parse to)")
		c.Add(&Job{Label: "VerifC03CheckEffective/fixed zones", Pkg: lintPkg, Func: "VerifC03CheckEffective", MustCover: []string{"in-window", "out-of-window"}, Tune: func(cf *Config) { cf.Bounds["timeloc"] = 1; cf.Calendar = true }})
		// sanity of the calendar abstraction the engine falls back on when code under test re-derives an instant
		// from calendar fields (the unchanged tree does not): proved under the model, replayed natively
		c.Add(&Job{Pkg: lintPkg, Func: "VerifC03CalendarModel", MustCover: []string{"rebuilt"}, Tune: cal})
		w := []string{"outside the window", "inside the window"}
		addOrderJobs(c, "C03", map[int][]string{0: w, 1: w, 2: w})
	}
}
