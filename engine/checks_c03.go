package main

const lintPkg = zlintMod + "/lint"
const utilPkg = zlintMod + "/util"
const rootPkg = zlintMod

func init() {
	checks["C03"] = func(c *Check) {
		c.Technique = "symbolic execution of go/ssa + SMT (z3): window kernel vs oracle, framework placement with stub lints"
		c.Assume("P1: times have no monotonic reading, 0 <= nsec < 1e9, |seconds since year 1| < 2^55, location nil (UTC) - what encoding/asn1 time parsing yields")
		c.Add(&Job{Pkg: lintPkg, Func: "VerifC03CheckEffective", MustCover: []string{"in-window", "out-of-window"}})
		w := []string{"outside the window", "inside the window"}
		addOrderJobs(c, "C03", map[int][]string{0: w, 1: w, 2: w})
	}
}
