package main

import (
	"encoding/json"
	"go/types"
	"net/url"
	"strconv"
	"strings"

	"github.com/weppos/publicsuffix-go/publicsuffix"

	"golang.org/x/tools/go/ssa"
)

// invokeIntrinsic intercepts interface method calls on engine-native values.
func (e *Exec) invokeIntrinsic(recv *IfaceV, method string, args []Value) func() Value {
	if recv.T == rtErrType && rtErrType != nil {
		switch method {
		case "Error":
			return func() Value { return recv.V }
		}
	}
	return nil
}

func oidString(e *Exec, fn *ssa.Function, args []Value) Value {
	sl := args[0].(*SliceV)
	n, ok := concInt(sl.Len)
	if !ok {
		n = int64(e.concretize(sl.Len, sl.Cap+1))
	}
	arcs := make([]*BV, n)
	allc := true
	for i := range arcs {
		arcs[i] = e.sliceElem(sl, i).(*BV)
		if arcs[i].C == nil {
			allc = false
		}
	}
	if allc {
		parts := make([]string, n)
		for i, a := range arcs {
			parts[i] = strconv.FormatInt(a.sval(), 10)
		}
		return cstr(strings.Join(parts, "."))
	}
	e.stub("model:ObjectIdentifier.String(arc-wise)")
	r := e.ufCall("oid.String", []Value{&SliceV{O: sl.O, P: sl.P, Off: sl.Off, Len: cbv(uint64(n), 64), Cap: sl.Cap}}, types.Typ[types.String]).(*StrV)
	return &StrV{T: r.T, OID: arcs}
}

// asn1Unmarshal: reflection-driven DER decoding is not executed.  The decoded
// value, the rest and the error are uninterpreted functions of the input bytes
// and the target type (so two lints decoding the same bytes see the same value).
func asn1Unmarshal(e *Exec, fn *ssa.Function, args []Value) Value {
	data := args[0].(*SliceV)
	iv, ok := args[1].(*IfaceV)
	if !ok || iv.T == nil {
		return &TupleV{E: []Value{&SliceV{Len: cbv(0, 64)}, e.mkError("asn1: Unmarshal recipient value is nil")}}
	}
	pt, isPtr := iv.T.Underlying().(*types.Pointer)
	target, _ := iv.V.(*PtrV)
	if !isPtr || target == nil || target.O == nil {
		return &TupleV{E: []Value{&SliceV{Len: cbv(0, 64)}, e.mkError("asn1: Unmarshal recipient value is non-pointer or nil")}}
	}
	e.stub("uf:asn1.Unmarshal")
	key := []Value{data, cstr(pt.Elem().String())}
	if len(args) > 2 {
		key = append(key, args[2])
	}
	errv := e.ufCall("asn1.Unmarshal.err", key, types.Universe.Lookup("error").Type()).(*IfaceV)
	if errv.T != nil {
		return &TupleV{E: []Value{&SliceV{Len: cbv(0, 64)}, errv}}
	}
	val := e.ufCall("asn1.Unmarshal.val", key, pt.Elem())
	e.store(target, val, e.curSite)
	rest := e.ufCall("asn1.Unmarshal.rest", key, types.NewSlice(types.Typ[types.Uint8]))
	return &TupleV{E: []Value{rest, &IfaceV{}}}
}

func asn1Marshal(e *Exec, fn *ssa.Function, args []Value) Value {
	e.stub("uf:asn1.Marshal")
	return e.ufCall("asn1.Marshal", args, fn.Signature.Results())
}

func addMoreIntrinsics(m map[string]intrinsic) {
	m["github.com/weppos/publicsuffix-go/publicsuffix.ParseFromListWithOptions"] = func(e *Exec, fn *ssa.Function, args []Value) Value {
		// the public suffix list is fixed: the parse is a function of the name alone
		if name, ok := concStr(args[1]); ok {
			// concrete name: the real library (same version as /repo/v3/go.mod) answers, with the options zcrypto passes
			e.stub("native:publicsuffix.Parse")
			dn, err := publicsuffix.ParseFromListWithOptions(publicsuffix.DefaultList, name, &publicsuffix.FindOptions{IgnorePrivate: true, DefaultRule: publicsuffix.DefaultRule})
			if err != nil {
				return &TupleV{E: []Value{&PtrV{}, e.mkError(err.Error())}}
			}
			rule := &PtrV{}
			if dn.Rule != nil {
				rule = &PtrV{O: e.newObj(&StructV{F: []Value{cbv(uint64(dn.Rule.Type), 64), cstr(dn.Rule.Value), cbv(uint64(dn.Rule.Length), 64), cbool(dn.Rule.Private)}}, "ps:rule")}
			}
			d := &StructV{F: []Value{cstr(dn.TLD), cstr(dn.SLD), cstr(dn.TRD), rule}}
			return &TupleV{E: []Value{&PtrV{O: e.newObj(d, "ps:domain")}, &IfaceV{}}}
		}
		e.stub("uf:publicsuffix.Parse")
		return e.ufCall("publicsuffix.Parse", []Value{args[1]}, fn.Signature.Results())
	}
	for _, p := range []string{"encoding/asn1", "github.com/zmap/zcrypto/encoding/asn1"} {
		m[p+".Unmarshal"] = asn1Unmarshal
		m[p+".UnmarshalWithParams"] = asn1Unmarshal
		m[p+".Marshal"] = asn1Marshal
		m[p+".MarshalWithParams"] = asn1Marshal
	}
	// net/url: Parse is evaluated by the real library when its argument is concrete (pool variants of the
	// order / pair checks), and the accessor methods of such a fully concrete URL are executed from source;
	// on symbolic strings both remain uninterpreted functions of their arguments.
	autoUF := func(e *Exec, fn *ssa.Function, args []Value) Value {
		if !e.cfg.AutoUF {
			e.unsupported("no stub: %s", fn.String())
		}
		e.stub("auto-uf:" + fn.String())
		return e.ufCall(fn.String(), args, fn.Signature.Results())
	}
	m["net/url.Parse"] = func(e *Exec, fn *ssa.Function, args []Value) Value {
		sv, ok := args[0].(*StrV)
		if !ok || sv.C == nil {
			return autoUF(e, fn, args)
		}
		e.stub("native:url.Parse")
		u, err := url.Parse(*sv.C)
		if err != nil {
			return &TupleV{E: []Value{&PtrV{}, e.mkError(err.Error())}}
		}
		pt := fn.Signature.Results().At(0).Type().(*types.Pointer)
		st := pt.Elem().Underlying().(*types.Struct)
		out := &StructV{F: make([]Value, st.NumFields())}
		for i := 0; i < st.NumFields(); i++ {
			f := st.Field(i)
			switch f.Name() {
			case "Scheme":
				out.F[i] = cstr(u.Scheme)
			case "Opaque":
				out.F[i] = cstr(u.Opaque)
			case "Host":
				out.F[i] = cstr(u.Host)
			case "Path":
				out.F[i] = cstr(u.Path)
			case "RawPath":
				out.F[i] = cstr(u.RawPath)
			case "RawQuery":
				out.F[i] = cstr(u.RawQuery)
			case "Fragment":
				out.F[i] = cstr(u.Fragment)
			case "RawFragment":
				out.F[i] = cstr(u.RawFragment)
			case "OmitHost":
				out.F[i] = cbool(u.OmitHost)
			case "ForceQuery":
				out.F[i] = cbool(u.ForceQuery)
			case "User":
				if u.User == nil {
					out.F[i] = &PtrV{}
				} else {
					ut := f.Type().(*types.Pointer).Elem().Underlying().(*types.Struct)
					us := &StructV{F: make([]Value, ut.NumFields())}
					pw, set := u.User.Password()
					for k := 0; k < ut.NumFields(); k++ {
						switch ut.Field(k).Name() {
						case "username":
							us.F[k] = cstr(u.User.Username())
						case "password":
							us.F[k] = cstr(pw)
						case "passwordSet":
							us.F[k] = cbool(set)
						default:
							us.F[k] = e.zero(ut.Field(k).Type())
						}
					}
					out.F[i] = &PtrV{O: e.newObj(us, "url:userinfo")}
				}
			default:
				out.F[i] = e.zero(f.Type())
			}
		}
		return &TupleV{E: []Value{&PtrV{O: e.newObj(out, "url:parsed")}, &IfaceV{}}}
	}
	concreteURL := func(e *Exec, v Value) bool {
		p, ok := v.(*PtrV)
		if !ok || p.O == nil || p.O.Name != "url:parsed" {
			return false
		}
		return true
	}
	for _, meth := range []string{"Hostname", "Port", "IsAbs", "String", "EscapedPath", "EscapedFragment", "RequestURI", "Query"} {
		m["(*net/url.URL)."+meth] = func(e *Exec, fn *ssa.Function, args []Value) Value {
			if len(fn.Blocks) > 0 && concreteURL(e, args[0]) {
				e.srcExtra["net/url"]++
				defer func() { e.srcExtra["net/url"]-- }()
				return e.runBody(fn, args)
			}
			return autoUF(e, fn, args)
		}
	}
	// json.Encoder by contract: Encode appends its argument to a ghost list the harness inspects
	// (zz.JSONEncoded); what the codec writes for it is encoding/json's business (trusted), what fields it
	// considers is read from the struct tags (zz.JSONTags)
	m["encoding/json.NewEncoder"] = func(e *Exec, fn *ssa.Function, args []Value) Value {
		e.stub("model:json.NewEncoder(ghost list of encoded values)")
		return &PtrV{O: e.newObj(&OpaqueV{N: "json.Encoder"}, "json:encoder")}
	}
	m["(*encoding/json.Encoder).SetEscapeHTML"] = func(e *Exec, fn *ssa.Function, args []Value) Value { return nil }
	m["(*encoding/json.Encoder).SetIndent"] = func(e *Exec, fn *ssa.Function, args []Value) Value { return nil }
	m["(*encoding/json.Encoder).Encode"] = func(e *Exec, fn *ssa.Function, args []Value) Value {
		e.ghost["json.encoded"] = append(e.ghost["json.encoded"], args[1])
		return &IfaceV{}
	}
	// (*rsa.PublicKey).Size: executed from its (one-line) source: (N.BitLen()+7)/8
	m["(*crypto/rsa.PublicKey).Size"] = func(e *Exec, fn *ssa.Function, args []Value) Value {
		if len(fn.Blocks) == 0 {
			e.unsupported("no body: rsa.PublicKey.Size")
		}
		return e.runBody(fn, args)
	}
	// signature verification: an uninterpreted function of the algorithm, the signed bytes and the
	// signature bytes (the hash and public-key code is not executed).  Flattening the arguments reads the
	// signature bytes, which is what the C09 taint looks for.
	m["github.com/zmap/zcrypto/x509.CheckSignatureFromKey"] = func(e *Exec, fn *ssa.Function, args []Value) Value {
		e.stub("uf:x509.CheckSignatureFromKey")
		return e.ufCall("x509.CheckSignatureFromKey", args[1:], fn.Signature.Results())
	}
	// (pkix.Name).String on a name of the linted object: its text is a function of the name alone, so it is
	// modelled by one named input string per name (c.Issuer!String()) instead of executing the RDN formatter
	// (sorting, escaping, OID tables) symbolically.  Over-approximation: the text is not tied to the attributes.
	m["(github.com/zmap/zcrypto/x509/pkix.Name).String"] = func(e *Exec, fn *ssa.Function, args []Value) Value {
		origin := ""
		switch x := args[0].(type) {
		case *LazyV:
			origin = x.Name
		case *StructV:
			origin = x.Origin
		}
		if origin == "" {
			return e.runBody(fn, args)
		}
		e.stub("model:pkix.Name.String(one named string per input name)")
		return e.newSymString(quoteSym(origin + "!String()"))
	}
	m["(github.com/zmap/zcrypto/encoding/asn1.ObjectIdentifier).String"] = oidString
	m["(encoding/asn1.ObjectIdentifier).String"] = oidString
	// --- encoding/json on strings (C13/C14); everything else about the codec is trusted, not executed ---
	m["encoding/json.Marshal"] = func(e *Exec, fn *ssa.Function, args []Value) Value {
		iv := args[0].(*IfaceV)
		if e.cfg.CLIEnv {
			return e.jsonMarshalCLI(iv)
		}
		if iv.T != nil && isString(iv.T) {
			sv := iv.V.(*StrV)
			if sv.C != nil {
				b, err := json.Marshal(*sv.C)
				if err == nil {
					return &TupleV{E: []Value{e.byteSlice(b), &IfaceV{}}}
				}
			}
		}
		e.stub("uf:json.Marshal")
		return e.ufCall("json.Marshal", args, fn.Signature.Results())
	}
	m["encoding/json.Unmarshal"] = func(e *Exec, fn *ssa.Function, args []Value) Value {
		data := args[0].(*SliceV)
		iv := args[1].(*IfaceV)
		if iv.T == nil {
			e.unsupported("json.Unmarshal into nil")
		}
		pt, ok := iv.T.Underlying().(*types.Pointer)
		if !ok || !isString(pt.Elem()) {
			e.unsupported("json.Unmarshal into %s (only *string is modelled)", iv.T.String())
		}
		target := iv.V.(*PtrV)
		if bs, ok := e.concBytes(data); ok {
			var out string
			err := json.Unmarshal(bs, &out)
			if err != nil {
				return e.mkError(err.Error())
			}
			e.store(target, cstr(out), e.curSite)
			return &IfaceV{}
		}
		// model: a JSON string without escapes or control characters decodes to its body;
		// any other input is left to an uninterpreted result
		d := e.bytesToStr(data)
		e.stub("model:json.Unmarshal(simple string)")
		simple := &BoolV{T: "(str.in_re " + d.T + ` (re.++ (str.to_re "\u{22}") (re.* (re.union (re.range " " "!") (re.range "#" "[") (re.range "]" "~"))) (str.to_re "\u{22}")))`}
		if e.branch(simple) {
			body := e.nameValue(&StrV{T: "(str.substr " + d.T + " 1 (- (str.len " + d.T + ") 2))"}, "js")
			e.store(target, body, e.curSite)
			return &IfaceV{}
		}
		e.stub("uf:json.Unmarshal")
		r := e.ufCall("json.Unmarshal", []Value{d}, fn.Signature.Results()).(*IfaceV)
		if r.T == nil {
			e.store(target, e.ufCall("json.Unmarshal.value", []Value{d}, types.Typ[types.String]), e.curSite)
		}
		return r
	}
}
