package main

import (
	"golang.org/x/tools/go/ssa"
)

// invokeIntrinsic intercepts interface method calls on engine-native values.
func (e *Exec) invokeIntrinsic(recv *IfaceV, method string, args []Value) func() Value {
	if recv.T == rtErrType && rtErrType != nil {
		switch method {
		case "Error":
			return func() Value { return recv.V }
		}
	}
	return nil
}

func addMoreIntrinsics(m map[string]intrinsic) {
	_ = ssa.Function{}
}
