package main

// go-toml evaluated natively: configuration documents are concrete strings
// chosen by the harness, so the real library (the version /repo/v3/go.mod
// pins) parses them, answers Get and unmarshals into a reflect mirror of the
// lint's configuration struct.  The codec itself is trusted, not analysed.

import (
	"fmt"
	"go/types"
	"reflect"
	"strings"

	toml "github.com/pelletier/go-toml"
	"golang.org/x/tools/go/ssa"
)

const tomlPkg = "github.com/pelletier/go-toml"

func (e *Exec) tomlTreeType() types.Type {
	p := e.findPkg(tomlPkg)
	if p == nil || p.Type("Tree") == nil {
		e.unsupported("go-toml not loaded")
	}
	return types.NewPointer(p.Type("Tree").Type())
}

func (e *Exec) tomlTreeOf(v Value) *toml.Tree {
	t, _ := e.opaqueOf(v).(*toml.Tree)
	return t
}

func (e *Exec) tomlWrap(t *toml.Tree) *PtrV {
	return &PtrV{O: e.newObj(&OpaqueV{N: t}, "toml:tree")}
}

// mirrorType builds the reflect counterpart of a configuration struct type.
func (e *Exec) mirrorType(t types.Type) reflect.Type {
	switch u := t.Underlying().(type) {
	case *types.Basic:
		switch u.Kind() {
		case types.Bool:
			return reflect.TypeOf(false)
		case types.Int:
			return reflect.TypeOf(int(0))
		case types.Int64:
			return reflect.TypeOf(int64(0))
		case types.Int32:
			return reflect.TypeOf(int32(0))
		case types.Uint, types.Uint64:
			return reflect.TypeOf(uint64(0))
		case types.String:
			return reflect.TypeOf("")
		case types.Float64:
			return reflect.TypeOf(float64(0))
		}
	case *types.Struct:
		var fs []reflect.StructField
		for i := 0; i < u.NumFields(); i++ {
			f := u.Field(i)
			if !f.Exported() {
				e.unsupported("configuration struct with unexported field %s", f.Name())
			}
			fs = append(fs, reflect.StructField{Name: f.Name(), Type: e.mirrorType(f.Type()), Tag: reflect.StructTag(u.Tag(i))})
		}
		return reflect.StructOf(fs)
	case *types.Slice:
		return reflect.SliceOf(e.mirrorType(u.Elem()))
	}
	e.unsupported("configuration field of type %s", t.String())
	return nil
}

func (e *Exec) toMirror(v Value, t types.Type, rv reflect.Value) {
	v = e.force(v)
	switch u := t.Underlying().(type) {
	case *types.Basic:
		switch x := v.(type) {
		case *BoolV:
			if x.C == nil {
				e.unsupported("symbolic configuration field")
			}
			rv.SetBool(*x.C)
		case *BV:
			if x.C == nil {
				e.unsupported("symbolic configuration field")
			}
			if rv.Kind() == reflect.Uint64 {
				rv.SetUint(*x.C)
			} else {
				rv.SetInt(x.sval())
			}
		case *StrV:
			if x.C == nil {
				e.unsupported("symbolic configuration field")
			}
			rv.SetString(*x.C)
		case *OpaqueV:
			if f, ok := x.N.(float64); ok {
				rv.SetFloat(f)
			}
		}
	case *types.Struct:
		sv := v.(*StructV)
		for i := 0; i < u.NumFields(); i++ {
			e.toMirror(sv.F[i], u.Field(i).Type(), rv.Field(i))
		}
	case *types.Slice:
		sl := v.(*SliceV)
		n, ok := concInt(sl.Len)
		if !ok {
			e.unsupported("symbolic configuration slice")
		}
		out := reflect.MakeSlice(rv.Type(), int(n), int(n))
		for i := 0; i < int(n); i++ {
			e.toMirror(e.sliceElem(sl, i), u.Elem(), out.Index(i))
		}
		rv.Set(out)
	}
}

func (e *Exec) fromMirror(t types.Type, rv reflect.Value) Value {
	switch u := t.Underlying().(type) {
	case *types.Basic:
		switch rv.Kind() {
		case reflect.Bool:
			return cbool(rv.Bool())
		case reflect.String:
			return cstr(rv.String())
		case reflect.Float64:
			return &OpaqueV{N: rv.Float()}
		case reflect.Uint64:
			w, _ := width(t)
			return cbv(rv.Uint(), w)
		default:
			w, _ := width(t)
			return cbv(uint64(rv.Int()), w)
		}
	case *types.Struct:
		s := &StructV{F: make([]Value, u.NumFields())}
		for i := range s.F {
			s.F[i] = e.fromMirror(u.Field(i).Type(), rv.Field(i))
		}
		return s
	case *types.Slice:
		arr := &ArrayV{E: make([]Value, rv.Len())}
		for i := range arr.E {
			arr.E[i] = e.fromMirror(u.Elem(), rv.Index(i))
		}
		if rv.IsNil() {
			return &SliceV{Len: cbv(0, 64)}
		}
		return &SliceV{O: e.newObj(arr, "toml:slice"), Len: cbv(uint64(rv.Len()), 64), Cap: rv.Len()}
	}
	e.unsupported("configuration field of type %s", t.String())
	return nil
}

func addTomlIntrinsics(m map[string]intrinsic) {
	m["github.com/zmap/zlint/v3/lint.NewConfigFromString"] = func(e *Exec, fn *ssa.Function, args []Value) Value {
		s, ok := concStr(args[0])
		if !ok {
			e.unsupported("configuration document must be concrete")
		}
		e.stub("native:toml.Load")
		t, err := toml.Load(s)
		if err != nil {
			return &TupleV{E: []Value{&StructV{F: []Value{&PtrV{}}}, e.mkError(err.Error())}}
		}
		return &TupleV{E: []Value{&StructV{F: []Value{e.tomlWrap(t)}}, &IfaceV{}}}
	}
	m["(*"+tomlPkg+".Tree).Get"] = func(e *Exec, fn *ssa.Function, args []Value) Value {
		t := e.tomlTreeOf(args[0])
		if t == nil {
			if p, ok := args[0].(*PtrV); ok && p.O == nil {
				panic(goPanic{msg: "nil pointer dereference (*toml.Tree)", site: e.curSite})
			}
			e.unsupported("Get on unknown toml tree")
		}
		key, ok := concStr(args[1])
		if !ok {
			e.unsupported("toml key must be concrete")
		}
		e.stub("native:toml.Tree.Get")
		switch g := t.Get(key).(type) {
		case nil:
			return &IfaceV{}
		case *toml.Tree:
			return &IfaceV{T: e.tomlTreeType(), V: e.tomlWrap(g)}
		case int64:
			return &IfaceV{T: types.Typ[types.Int64], V: cbv(uint64(g), 64)}
		case uint64:
			return &IfaceV{T: types.Typ[types.Uint64], V: cbv(g, 64)}
		case string:
			return &IfaceV{T: types.Typ[types.String], V: cstr(g)}
		case bool:
			return &IfaceV{T: types.Typ[types.Bool], V: cbool(g)}
		case float64:
			return &IfaceV{T: types.Typ[types.Float64], V: &OpaqueV{N: g}}
		case []*toml.Tree:
			arr := &ArrayV{E: make([]Value, len(g))}
			for i := range g {
				arr.E[i] = e.tomlWrap(g[i])
			}
			return &IfaceV{T: types.NewSlice(e.tomlTreeType()), V: &SliceV{O: e.newObj(arr, "toml:trees"), Len: cbv(uint64(len(g)), 64), Cap: len(g)}}
		default:
			// arrays of scalars, dates: some other dynamic type that is not a table
			return &IfaceV{T: types.NewSlice(types.NewInterfaceType(nil, nil)), V: &SliceV{Len: cbv(0, 64)}}
		}
	}
	m["(*"+tomlPkg+".Tree).Keys"] = func(e *Exec, fn *ssa.Function, args []Value) Value {
		t := e.tomlTreeOf(args[0])
		if t == nil {
			if p, ok := args[0].(*PtrV); ok && p.O == nil {
				panic(goPanic{msg: "nil pointer dereference (*toml.Tree)", site: e.curSite})
			}
			e.unsupported("Keys on unknown toml tree")
		}
		e.stub("native:toml.Tree.Keys")
		return e.strSliceVal(t.Keys())
	}
	m["(*"+tomlPkg+".Tree).Has"] = func(e *Exec, fn *ssa.Function, args []Value) Value {
		t := e.tomlTreeOf(args[0])
		key, ok := concStr(args[1])
		if t == nil || !ok {
			e.unsupported("Has on unknown toml tree or symbolic key")
		}
		e.stub("native:toml.Tree.Has")
		return cbool(t.Has(key))
	}
	m["(*"+tomlPkg+".Tree).Unmarshal"] = func(e *Exec, fn *ssa.Function, args []Value) Value {
		t := e.tomlTreeOf(args[0])
		if t == nil {
			e.unsupported("Unmarshal on unknown toml tree")
		}
		iv := args[1].(*IfaceV)
		if iv.T == nil {
			return e.mkError("toml: Unmarshal(nil)")
		}
		pt, ok := iv.T.Underlying().(*types.Pointer)
		if !ok {
			return e.mkError("toml: only a pointer to struct can be unmarshaled")
		}
		target := iv.V.(*PtrV)
		if target.O == nil {
			return e.mkError("toml: Unmarshal(nil pointer)")
		}
		e.stub("native:toml.Tree.Unmarshal")
		rt := e.mirrorType(pt.Elem())
		rv := reflect.New(rt)
		e.toMirror(e.load(target, e.curSite), pt.Elem(), rv.Elem())
		if err := t.Unmarshal(rv.Interface()); err != nil {
			return e.mkError(err.Error())
		}
		e.store(target, e.fromMirror(pt.Elem(), rv.Elem()), e.curSite)
		return &IfaceV{}
	}
	m["(github.com/zmap/zlint/v3/lint.Configuration).resolveHigherScopedReferences"] = func(e *Exec, fn *ssa.Function, args []Value) Value {
		iv := args[1].(*IfaceV)
		if iv.T == nil {
			return &IfaceV{}
		}
		if e.hasGlobalConfigField(iv.T, 0) {
			e.unsupported("configuration struct with higher scoped (global) fields: reflection walker not modelled")
		}
		e.stub("model:resolveHigherScopedReferences(no global fields => nil)")
		return &IfaceV{}
	}
}

// hasGlobalConfigField: does the struct (behind pointers) contain a field whose
// type implements lint.GlobalConfiguration?
func (e *Exec) hasGlobalConfigField(t types.Type, depth int) bool {
	if depth > 6 {
		return true
	}
	if p, ok := t.Underlying().(*types.Pointer); ok {
		return e.hasGlobalConfigField(p.Elem(), depth+1)
	}
	st, ok := t.Underlying().(*types.Struct)
	if !ok {
		return false
	}
	lp := e.findPkg(lintPkg)
	var gi *types.Interface
	if lp != nil && lp.Type("GlobalConfiguration") != nil {
		gi, _ = lp.Type("GlobalConfiguration").Type().Underlying().(*types.Interface)
	}
	for i := 0; i < st.NumFields(); i++ {
		ft := st.Field(i).Type()
		if gi != nil && (types.Implements(ft, gi) || types.Implements(types.NewPointer(ft), gi)) {
			return true
		}
		if strings.Contains(ft.String(), "lint.") && strings.HasSuffix(ft.String(), "Config") {
			return true
		}
		if e.hasGlobalConfigField(ft, depth+1) {
			return true
		}
	}
	return false
}

var _ = fmt.Sprint
