package main

import (
	"fmt"
	"go/types"
	"math/big"
	"sort"
	"strings"

	"golang.org/x/tools/go/ssa"
)

// Value is a symbolic Go value.  Scalars carry an SMT term and, when known, a
// concrete value; aggregates are immutable trees; pointers, slices and maps
// refer to heap objects whose shape is concrete on every path.
type Value interface{}

type BV struct {
	T string
	W int
	C *uint64
	I string // optional: Int term with the same value, known to lie in [0, 2^40)
	// optional origin of a byte: character ChI (an Int term) of string ChS
	ChS string
	ChI string
	ChK int // concrete index or -1
}
type BoolV struct {
	T string
	C *bool
}
type StrV struct {
	T     string
	C     *string
	Parts []*StrV // when the value is a concatenation: its operands in order
	Args  []Value // when the value is the result of a formatting stub: the arguments formatted
	// Alts: the value is one of finitely many concrete strings: Alts[i].S when
	// Alts[i].Cond holds (conditions mutually exclusive), Else when none does.
	Alts []StrAlt
	Else string
	// OID: the value is the dotted-decimal rendering of these arcs (ObjectIdentifier.String)
	OID []*BV
}
type StrAlt struct {
	Cond string
	S    string
}
type StructV struct {
	F []Value
	// Origin: access path of the lazy input this struct was materialised from ("" once modified or for
	// structs built during the run); lets pure methods of input objects be modelled by named symbols
	Origin string
}
type ArrayV struct{ E []Value }

type Obj struct {
	// Spare: 1 + the original length of an input slice's backing array once an append aliased it (stores at
	// or beyond that index land in spare capacity and change nothing a reader of the object can see); 0 = none
	Spare int
	// Published: a reference to this object (created during the run) has been stored into memory of the
	// linted object - e.g. zcrypto's per-certificate parse caches.  Later stores into it by zlint code change
	// what every subsequent reader of the certificate sees.
	Published bool
	ID        int
	T         types.Type // static type of an input root object (for the write monitor)
	// StrOrigin: the array was created by []byte(s) for this string and has
	// not been written since (string(b) then gives s back).
	StrOrigin *StrV
	V         Value
	Born      int    // allocation sequence number on this path
	Tag       string // "", "global:<name>", "input:<name>", "lazy:<name>"
	Name      string
}
type PtrV struct {
	O    *Obj
	Path []int
}
type SliceV struct {
	O      *Obj
	P      []int
	Off    int
	Len    *BV
	Cap    int
	NilSym string // for lazily created input slices: Bool symbol "is nil" (implies len 0)
}
type IfaceV struct {
	T types.Type
	V Value
}
type FuncV struct {
	Fn *ssa.Function
	B  []Value
}
type TupleV struct{ E []Value }

type MapObj struct {
	ID   int
	K    []Value
	V    []Value
	Born int
	Tag  string
	Lazy *LazyMap
}
type MapV struct{ M *MapObj }

// LazyMap is an input map whose entries are created on first lookup of a
// concrete key.
type LazyMap struct {
	Name string
	VT   types.Type
}

// BigV is the content of the heap cell behind a *big.Int: a mathematical integer.
type BigV struct {
	T string
	C *big.Int
}

// OpaqueV wraps a native Go object (compiled regexp, TOML tree, ...).
type OpaqueV struct{ N interface{} }

// Poison marks a value the engine could not compute during initialisation.
type Poison struct{ Why string }

// LazyV is a not-yet-materialised part of a symbolic input object.
type LazyV struct {
	Name string
	T    types.Type
}

// UFV is the opaque result of an uninterpreted stub that has no scalar
// representation (e.g. *url.URL internals); fields are derived on demand.
type UFV struct {
	Name string
	T    types.Type
}

func cbv(v uint64, w int) *BV {
	if w < 64 {
		v &= (uint64(1) << uint(w)) - 1
	}
	return &BV{T: fmt.Sprintf("(_ bv%d %d)", v, w), W: w, C: &v}
}
func cbool(b bool) *BoolV {
	if b {
		return &BoolV{T: "true", C: &b}
	}
	return &BoolV{T: "false", C: &b}
}
func smtStr(s string) string {
	var sb strings.Builder
	sb.WriteByte('"')
	for i := 0; i < len(s); i++ {
		c := s[i]
		if c == '"' {
			sb.WriteString("\"\"")
		} else if c >= 0x20 && c < 0x7f && c != '\\' {
			sb.WriteByte(c)
		} else {
			fmt.Fprintf(&sb, "\\u{%x}", c)
		}
	}
	sb.WriteByte('"')
	return sb.String()
}
func cstr(s string) *StrV { return &StrV{T: smtStr(s), C: &s} }

func cbig(n *big.Int) *BigV {
	t := n.String()
	if n.Sign() < 0 {
		t = "(- " + new(big.Int).Neg(n).String() + ")"
	}
	return &BigV{T: t, C: new(big.Int).Set(n)}
}

func (b *BV) sval() int64 {
	x := *b.C
	if b.W < 64 {
		x = uint64(int64(x<<(64-uint(b.W))) >> (64 - uint(b.W)))
	}
	return int64(x)
}

func concStr(v Value) (string, bool) {
	if s, ok := v.(*StrV); ok && s.C != nil {
		return *s.C, true
	}
	return "", false
}
func concInt(v Value) (int64, bool) {
	if b, ok := v.(*BV); ok && b.C != nil {
		return b.sval(), true
	}
	return 0, false
}
func concBool(v Value) (bool, bool) {
	if b, ok := v.(*BoolV); ok && b.C != nil {
		return *b.C, true
	}
	return false, false
}

func width(t types.Type) (int, bool) {
	b, ok := t.Underlying().(*types.Basic)
	if !ok {
		return 0, false
	}
	switch b.Kind() {
	case types.Int8:
		return 8, true
	case types.Uint8:
		return 8, false
	case types.Int16:
		return 16, true
	case types.Uint16:
		return 16, false
	case types.Int32, types.UntypedRune:
		return 32, true
	case types.Uint32:
		return 32, false
	case types.Int, types.Int64, types.UntypedInt:
		return 64, true
	case types.Uint, types.Uint64, types.Uintptr:
		return 64, false
	}
	return 0, false
}

func isString(t types.Type) bool {
	b, ok := t.Underlying().(*types.Basic)
	return ok && b.Info()&types.IsString != 0
}
func isBool(t types.Type) bool {
	b, ok := t.Underlying().(*types.Basic)
	return ok && b.Info()&types.IsBoolean != 0
}
func isFloat(t types.Type) bool {
	b, ok := t.Underlying().(*types.Basic)
	return ok && b.Info()&(types.IsFloat|types.IsComplex) != 0
}

func typeName(t types.Type) string {
	return types.TypeString(t, nil)
}

// --- boolean term helpers with constant folding ---

func bnot(a *BoolV) *BoolV {
	if a.C != nil {
		return cbool(!*a.C)
	}
	if strings.HasPrefix(a.T, "(not ") {
		return &BoolV{T: a.T[5 : len(a.T)-1]}
	}
	return &BoolV{T: "(not " + a.T + ")"}
}
func band(a, b *BoolV) *BoolV {
	if a.C != nil {
		if *a.C {
			return b
		}
		return a
	}
	if b.C != nil {
		if *b.C {
			return a
		}
		return b
	}
	return &BoolV{T: "(and " + a.T + " " + b.T + ")"}
}
func bor(a, b *BoolV) *BoolV {
	if a.C != nil {
		if *a.C {
			return a
		}
		return b
	}
	if b.C != nil {
		if *b.C {
			return b
		}
		return a
	}
	return &BoolV{T: "(or " + a.T + " " + b.T + ")"}
}
func beq(a, b *BoolV) *BoolV {
	if a.C != nil && b.C != nil {
		return cbool(*a.C == *b.C)
	}
	return &BoolV{T: "(= " + a.T + " " + b.T + ")"}
}

func pathEq(a, b []int) bool {
	if len(a) != len(b) {
		return false
	}
	for i := range a {
		if a[i] != b[i] {
			return false
		}
	}
	return true
}

func appendPath(p []int, i int) []int {
	n := make([]int, len(p)+1)
	copy(n, p)
	n[len(p)] = i
	return n
}

func sortStrings(s []string) { sort.Strings(s) }
