package main

import (
	"fmt"
	"go/token"
	"go/types"
	"math/big"
)

func bvcmp(op string, a, b *BV) *BoolV {
	if a.C != nil && b.C != nil {
		x, y := *a.C, *b.C
		switch op {
		case "bvult":
			return cbool(x < y)
		case "bvule":
			return cbool(x <= y)
		case "bvugt":
			return cbool(x > y)
		case "bvuge":
			return cbool(x >= y)
		case "bvslt":
			return cbool(a.sval() < b.sval())
		case "bvsle":
			return cbool(a.sval() <= b.sval())
		case "bvsgt":
			return cbool(a.sval() > b.sval())
		case "bvsge":
			return cbool(a.sval() >= b.sval())
		case "=":
			return cbool(x == y)
		}
	}
	if (a.I != "" || b.I != "") && a.W == 64 {
		signed := len(op) > 2 && op[2] == 's'
		ai, ok1 := intView(a, signed)
		bi, ok2 := intView(b, signed)
		if ok1 && ok2 {
			iop := map[string]string{"bvult": "<", "bvule": "<=", "bvugt": ">", "bvuge": ">=", "bvslt": "<", "bvsle": "<=", "bvsgt": ">", "bvsge": ">=", "=": "="}[op]
			return &BoolV{T: fmt.Sprintf("(%s %s %s)", iop, ai, bi)}
		}
	}
	return &BoolV{T: fmt.Sprintf("(%s %s %s)", op, a.T, b.T)}
}

// intView returns an Int term equal to the value of b when one is known
// without conversion (small non-negative quantities such as lengths).
func intView(b *BV, signed bool) (string, bool) {
	if b.I != "" {
		return b.I, true
	}
	if b.C != nil {
		if signed {
			v := b.sval()
			if v < 0 {
				return fmt.Sprintf("(- %d)", -v), true
			}
			return fmt.Sprint(v), true
		}
		return fmt.Sprint(*b.C), true
	}
	return "", false
}

func bvIte(c *BoolV, a, b *BV) *BV {
	if c.C != nil {
		if *c.C {
			return a
		}
		return b
	}
	if a.C != nil && b.C != nil && *a.C == *b.C {
		return a
	}
	return &BV{T: "(ite " + c.T + " " + a.T + " " + b.T + ")", W: a.W}
}

func bvbin(op token.Token, a, b *BV, signed bool) Value {
	w := a.W
	if a.C != nil && b.C != nil {
		x, y := *a.C, *b.C
		sx, sy := a.sval(), b.sval()
		switch op {
		case token.ADD:
			return cbv(x+y, w)
		case token.SUB:
			return cbv(x-y, w)
		case token.MUL:
			return cbv(x*y, w)
		case token.AND:
			return cbv(x&y, w)
		case token.OR:
			return cbv(x|y, w)
		case token.XOR:
			return cbv(x^y, w)
		case token.AND_NOT:
			return cbv(x&^y, w)
		case token.SHL:
			if y >= uint64(w) {
				return cbv(0, w)
			}
			return cbv(x<<y, w)
		case token.SHR:
			if signed {
				if y >= 64 {
					y = 63
				}
				return cbv(uint64(sx>>y), w)
			}
			if y >= uint64(w) {
				return cbv(0, w)
			}
			return cbv(x>>y, w)
		case token.EQL:
			return cbool(x == y)
		case token.NEQ:
			return cbool(x != y)
		case token.LSS:
			if signed {
				return cbool(sx < sy)
			}
			return cbool(x < y)
		case token.LEQ:
			if signed {
				return cbool(sx <= sy)
			}
			return cbool(x <= y)
		case token.GTR:
			if signed {
				return cbool(sx > sy)
			}
			return cbool(x > y)
		case token.GEQ:
			if signed {
				return cbool(sx >= sy)
			}
			return cbool(x >= y)
		case token.QUO:
			if y == 0 {
				panic(goPanic{msg: "integer divide by zero"})
			}
			if signed {
				if sy == -1 {
					return cbv(uint64(-sx), w)
				}
				return cbv(uint64(sx/sy), w)
			}
			return cbv(x/y, w)
		case token.REM:
			if y == 0 {
				panic(goPanic{msg: "integer divide by zero"})
			}
			if signed {
				if sy == -1 {
					return cbv(0, w)
				}
				return cbv(uint64(sx%sy), w)
			}
			return cbv(x%y, w)
		}
	}
	if a.I != "" || b.I != "" {
		ai, ok1 := intView(a, signed)
		bi, ok2 := intView(b, signed)
		if ok1 && ok2 && w == 64 {
			ib := func(n string) Value { return &BoolV{T: fmt.Sprintf("(%s %s %s)", n, ai, bi)} }
			switch op {
			case token.EQL:
				return ib("=")
			case token.NEQ:
				return &BoolV{T: fmt.Sprintf("(not (= %s %s))", ai, bi)}
			case token.LSS:
				return ib("<")
			case token.LEQ:
				return ib("<=")
			case token.GTR:
				return ib(">")
			case token.GEQ:
				return ib(">=")
			case token.REM:
				if b.C != nil && b.sval() > 0 {
					t := fmt.Sprintf("(mod %s %s)", ai, bi)
					return &BV{T: "((_ int2bv 64) " + t + ")", W: 64, I: t}
				}
			case token.QUO:
				if b.C != nil && b.sval() > 0 {
					t := fmt.Sprintf("(div %s %s)", ai, bi)
					return &BV{T: "((_ int2bv 64) " + t + ")", W: 64, I: t}
				}
			case token.ADD:
				if b.C != nil && b.sval() >= 0 && b.sval() < 1<<32 || a.C != nil && a.sval() >= 0 && a.sval() < 1<<32 {
					t := fmt.Sprintf("(+ %s %s)", ai, bi)
					return &BV{T: "((_ int2bv 64) " + t + ")", W: 64, I: t}
				}
			}
		}
	}
	// algebraic simplifications with one concrete side
	if b.C != nil {
		switch {
		case *b.C == 0 && (op == token.ADD || op == token.SUB || op == token.OR || op == token.XOR || op == token.SHL || op == token.SHR):
			return a
		case *b.C == 0 && (op == token.MUL || op == token.AND):
			return cbv(0, w)
		case *b.C == 1 && (op == token.MUL || op == token.QUO):
			return a
		}
	}
	if a.C != nil {
		switch {
		case *a.C == 0 && (op == token.ADD || op == token.OR || op == token.XOR):
			return b
		case *a.C == 0 && (op == token.MUL || op == token.AND || op == token.SHL || op == token.SHR):
			return cbv(0, w)
		}
	}
	f := func(n string) Value { return &BV{T: fmt.Sprintf("(%s %s %s)", n, a.T, b.T), W: w} }
	g := func(n string) Value { return &BoolV{T: fmt.Sprintf("(%s %s %s)", n, a.T, b.T)} }
	pick := func(s, u string) string {
		if signed {
			return s
		}
		return u
	}
	switch op {
	case token.ADD:
		return f("bvadd")
	case token.SUB:
		return f("bvsub")
	case token.MUL:
		return f("bvmul")
	case token.AND:
		return f("bvand")
	case token.OR:
		return f("bvor")
	case token.XOR:
		return f("bvxor")
	case token.AND_NOT:
		return &BV{T: fmt.Sprintf("(bvand %s (bvnot %s))", a.T, b.T), W: w}
	case token.SHL:
		return f("bvshl")
	case token.SHR:
		return f(pick("bvashr", "bvlshr"))
	case token.QUO:
		return f(pick("bvsdiv", "bvudiv"))
	case token.REM:
		return f(pick("bvsrem", "bvurem"))
	case token.EQL:
		return g("=")
	case token.NEQ:
		return &BoolV{T: fmt.Sprintf("(not (= %s %s))", a.T, b.T)}
	case token.LSS:
		return g(pick("bvslt", "bvult"))
	case token.LEQ:
		return g(pick("bvsle", "bvule"))
	case token.GTR:
		return g(pick("bvsgt", "bvugt"))
	case token.GEQ:
		return g(pick("bvsge", "bvuge"))
	}
	panic(pathEnd{"unsupported", "binop " + op.String()})
}

func resize(a *BV, w int, signed bool) *BV {
	if a.W == w {
		return a
	}
	if a.C != nil {
		v := *a.C
		if signed {
			v = uint64(a.sval())
		}
		return cbv(v, w)
	}
	if w < a.W {
		return &BV{T: fmt.Sprintf("((_ extract %d 0) %s)", w-1, a.T), W: w}
	}
	if signed {
		return &BV{T: fmt.Sprintf("((_ sign_extend %d) %s)", w-a.W, a.T), W: w}
	}
	return &BV{T: fmt.Sprintf("((_ zero_extend %d) %s)", w-a.W, a.T), W: w}
}

func (e *Exec) binop(op token.Token, a, b Value, xt types.Type, site string) Value {
	switch x := a.(type) {
	case *BV:
		y, ok := b.(*BV)
		if !ok {
			e.unsupported("binop BV with %T", b)
		}
		_, signed := width(xt)
		if op == token.SHL || op == token.SHR {
			// shift count has its own type; Go shifts by >= width give 0 / sign
			if y.C == nil {
				yw := resize(y, x.W, false)
				if y.W > x.W {
					// large counts: saturate
					big := bvcmp("bvuge", y, cbv(uint64(x.W), y.W))
					yw = bvIte(big, cbv(uint64(x.W), x.W), yw)
				}
				y = yw
			} else {
				c := *y.C
				if c > uint64(x.W) {
					c = uint64(x.W)
				}
				y = cbv(c, x.W)
			}
		}
		if (op == token.QUO || op == token.REM) && y.C == nil {
			if e.branch(bvcmp("=", y, cbv(0, y.W))) {
				panic(goPanic{msg: "integer divide by zero", site: site})
			}
		}
		defer func() {
			if r := recover(); r != nil {
				if gp, ok := r.(goPanic); ok && gp.site == "" {
					gp.site = site
					panic(gp)
				}
				panic(r)
			}
		}()
		return bvbin(op, x, y, signed)
	case *BoolV:
		y := b.(*BoolV)
		switch op {
		case token.EQL:
			return beq(x, y)
		case token.NEQ:
			return bnot(beq(x, y))
		case token.AND, token.LAND:
			return band(x, y)
		case token.OR, token.LOR:
			return bor(x, y)
		}
	case *StrV:
		y, ok := b.(*StrV)
		if !ok {
			e.unsupported("binop string with %T", b)
		}
		return e.strBinop(op, x, y)
	case *OpaqueV:
		if fx, ok := x.N.(float64); ok {
			if oy, ok := b.(*OpaqueV); ok {
				if fy, ok := oy.N.(float64); ok {
					switch op {
					case token.ADD:
						return &OpaqueV{N: fx + fy}
					case token.SUB:
						return &OpaqueV{N: fx - fy}
					case token.MUL:
						return &OpaqueV{N: fx * fy}
					case token.QUO:
						return &OpaqueV{N: fx / fy}
					case token.LSS:
						return cbool(fx < fy)
					case token.LEQ:
						return cbool(fx <= fy)
					case token.GTR:
						return cbool(fx > fy)
					case token.GEQ:
						return cbool(fx >= fy)
					case token.EQL:
						return cbool(fx == fy)
					case token.NEQ:
						return cbool(fx != fy)
					}
				}
			}
			e.unsupported("symbolic floating point")
		}
	}
	switch op {
	case token.EQL:
		return e.valEq(a, b)
	case token.NEQ:
		return bnot(e.valEq(a, b))
	}
	e.unsupported("binop %s on %T", op, a)
	return nil
}

func (e *Exec) convert(v Value, from, to types.Type) Value {
	switch a := v.(type) {
	case *BV:
		if isString(to) {
			// string(rune)
			if a.C != nil {
				return cstr(string(rune(a.sval())))
			}
			e.unsupported("string(symbolic rune)")
		}
		if isFloat(to) {
			if a.C != nil {
				_, s := width(from)
				if s {
					return &OpaqueV{N: float64(a.sval())}
				}
				return &OpaqueV{N: float64(*a.C)}
			}
			e.unsupported("symbolic int to float")
		}
		w, _ := width(to)
		_, s := width(from)
		if w == 0 {
			if _, isPtr := to.Underlying().(*types.Basic); isPtr {
				e.unsupported("convert int to %s", to.String())
			}
			e.unsupported("convert int to %s", to.String())
		}
		return resize(a, w, s)
	case *StrV:
		if isString(to) {
			return a
		}
		if sl, ok := to.Underlying().(*types.Slice); ok {
			if w, _ := width(sl.Elem()); w == 8 {
				return e.strToBytes(a)
			}
			if w, _ := width(sl.Elem()); w == 32 {
				return e.strToRunes(a)
			}
		}
		e.unsupported("string -> %s", to.String())
	case *SliceV:
		if isString(to) {
			et := from.Underlying().(*types.Slice).Elem()
			if w, _ := width(et); w == 8 {
				return e.bytesToStr(a)
			}
			if w, _ := width(et); w == 32 {
				return e.runesToStr(a)
			}
		}
		if _, ok := to.Underlying().(*types.Slice); ok {
			return a
		}
		e.unsupported("slice convert to %s", to.String())
	case *OpaqueV:
		if f, ok := a.N.(float64); ok {
			if isFloat(to) {
				if b, ok := to.Underlying().(*types.Basic); ok && b.Kind() == types.Float32 {
					return &OpaqueV{N: float64(float32(f))}
				}
				return a
			}
			if w, s := width(to); w > 0 {
				if s {
					return cbv(uint64(int64(f)), w)
				}
				return cbv(uint64(f), w)
			}
		}
		if a.N == nil {
			return a
		}
	case *PtrV:
		if _, ok := to.Underlying().(*types.Pointer); ok {
			return a
		}
		if b, ok := to.Underlying().(*types.Basic); ok && b.Kind() == types.UnsafePointer {
			return a
		}
	case *BoolV:
		return a
	case *StructV, *ArrayV, *IfaceV, *FuncV, *MapV:
		return a
	}
	e.unsupported("convert %T to %s", v, to.String())
	return nil
}

func bigFromBV(b *BV, signed bool) *big.Int {
	if signed {
		return big.NewInt(b.sval())
	}
	return new(big.Int).SetUint64(*b.C)
}
