package main

// Native replay: solver models are fed back to the same harness source,
// compiled by the real Go compiler against /repo's working tree with
// `go test -overlay`.  A candidate counts as a violation only when the real
// build shows the asserted-impossible behaviour.

import (
	"bytes"
	"encoding/json"
	"fmt"
	"os"
	"os/exec"
	"path/filepath"
	"sort"
	"strings"
	"time"
)

type replayCase struct {
	Func   string            `json:"func"`
	Pkg    string            `json:"pkg"`
	Nondet []NondetRec       `json:"nondet"`
	Model  map[string]string `json:"model"`
	// expectations (not read by the native side)
	ExpectCovers []string `json:"expect_covers,omitempty"`
	Label        string   `json:"label,omitempty"`
}

type replayOutcome struct {
	Fails  []string
	Panic  string
	Assume bool
	Covers []string
	Done   bool
	Raw    string
}

func pkgDir(pkg string) string {
	return strings.TrimPrefix(strings.TrimPrefix(pkg, zlintMod), "/")
}

// runNative replays the cases (all of one package) and returns one outcome per case.
func runNative(pkg string, cases []replayCase, timeout time.Duration) ([]replayOutcome, string, error) {
	tmp, err := os.MkdirTemp("", "symgo-replay-")
	if err != nil {
		return nil, "", err
	}
	defer os.RemoveAll(tmp)
	casesPath := filepath.Join(tmp, "cases.json")
	b, _ := json.Marshal(map[string]interface{}{"cases": cases})
	os.WriteFile(casesPath, b, 0o644)

	funcs := map[string]bool{}
	for _, c := range cases {
		funcs[c.Func] = true
	}
	var names []string
	for f := range funcs {
		names = append(names, f)
	}
	sort.Strings(names)
	dir := pkgDir(pkg)
	pkgName := filepath.Base(dir)
	if dir == "" {
		pkgName = "zlint"
	}
	if strings.HasPrefix(dir, "cmd/") {
		pkgName = "main"
	}
	var tb bytes.Buffer
	fmt.Fprintf(&tb, "package %s\n\nimport (\n\t\"fmt\"\n\t\"testing\"\n\tzz \"%s/zzverif\"\n)\n\n", pkgName, zlintMod)
	fmt.Fprintf(&tb, "var zzReplayTable = map[string]func(){\n")
	for _, n := range names {
		fmt.Fprintf(&tb, "\t%q: %s,\n", n, n)
	}
	fmt.Fprintf(&tb, "}\n\nfunc TestZZReplay(t *testing.T) {\n\tfor i := 0; i < zz.Cases(); i++ {\n\t\t_, fn := zz.Select(i)\n\t\tf := zzReplayTable[fn]\n\t\tif f == nil {\n\t\t\tfmt.Printf(\"ZZ-CASE %%d NOFUNC %%s\\n\", i, fn)\n\t\t\tcontinue\n\t\t}\n")
	fmt.Fprintf(&tb, "\t\tfunc() {\n\t\t\tdefer func() {\n\t\t\t\tif r := recover(); r != nil {\n\t\t\t\t\tif _, ok := r.(zz.AssumeFailed); ok {\n\t\t\t\t\t\tfmt.Printf(\"ZZ-CASE %%d ASSUME-FAILED\\n\", i)\n\t\t\t\t\t\treturn\n\t\t\t\t\t}\n\t\t\t\t\tfmt.Printf(\"ZZ-CASE %%d PANIC %%v\\n\", i, r)\n\t\t\t\t}\n\t\t\t}()\n\t\t\tf()\n\t\t}()\n")
	fmt.Fprintf(&tb, "\t\tfor _, m := range zz.Failures {\n\t\t\tfmt.Printf(\"ZZ-CASE %%d FAIL %%s\\n\", i, m)\n\t\t}\n\t\tfmt.Printf(\"ZZ-CASE %%d COVERS %%q\\n\", i, zz.Covers)\n\t\tfmt.Printf(\"ZZ-CASE %%d DONE\\n\", i)\n\t}\n}\n")
	testPath := filepath.Join(tmp, "zz_replay_test.go")
	os.WriteFile(testPath, tb.Bytes(), 0o644)

	ov, _, err := buildOverlayPaths()
	if err != nil {
		return nil, "", err
	}
	ov[filepath.Join(repoV3, dir, "zz_verif_replay_test.go")] = testPath
	ovb, _ := json.Marshal(map[string]interface{}{"Replace": ov})
	ovPath := filepath.Join(tmp, "overlay.json")
	os.WriteFile(ovPath, ovb, 0o644)

	target := "./" + dir
	if dir == "" {
		target = "."
	}
	cmd := exec.Command("go", "test", "-v", "-vet=off", "-count=1", "-overlay", ovPath, "-run", "^TestZZReplay$", "-timeout", fmt.Sprintf("%ds", int(timeout.Seconds())), target)
	cmd.Dir = repoV3
	cmd.Env = append(os.Environ(), "GOFLAGS=-mod=mod", "GOPROXY=off", "GOSUMDB=off", "GOTOOLCHAIN=local", "ZZ_REPLAY="+casesPath)
	if pkgName == "main" {
		// a command's init() parses the process arguments: build the test binary and run it without any
		bin := filepath.Join(tmp, "replay.test")
		build := exec.Command("go", "test", "-c", "-vet=off", "-overlay", ovPath, "-o", bin, target)
		build.Dir = repoV3
		build.Env = cmd.Env
		if bo, err := build.CombinedOutput(); err != nil {
			return nil, string(bo), fmt.Errorf("cannot build the replay test binary: %v", err)
		}
		cmd = exec.Command(bin)
		cmd.Dir = filepath.Join(repoV3, dir)
		cmd.Env = build.Env
	}
	var out bytes.Buffer
	cmd.Stdout = &out
	cmd.Stderr = &out
	done := make(chan error, 1)
	cmd.Start()
	go func() { done <- cmd.Wait() }()
	select {
	case <-done:
	case <-time.After(timeout + 30*time.Second):
		cmd.Process.Kill()
		return nil, out.String(), fmt.Errorf("native replay timed out")
	}
	outs := make([]replayOutcome, len(cases))
	for _, line := range strings.Split(out.String(), "\n") {
		if !strings.HasPrefix(line, "ZZ-CASE ") {
			continue
		}
		var idx int
		var rest string
		parts := strings.SplitN(line[8:], " ", 3)
		if len(parts) < 2 {
			continue
		}
		fmt.Sscan(parts[0], &idx)
		if idx < 0 || idx >= len(outs) {
			continue
		}
		if len(parts) == 3 {
			rest = parts[2]
		}
		o := &outs[idx]
		o.Raw += line + "\n"
		switch parts[1] {
		case "FAIL":
			o.Fails = append(o.Fails, rest)
		case "PANIC":
			o.Panic = rest
		case "ASSUME-FAILED":
			o.Assume = true
		case "COVERS":
			o.Covers = parseQuotedList(rest)
		case "DONE":
			o.Done = true
		}
	}
	return outs, out.String(), nil
}

func parseQuotedList(s string) []string {
	// %q of []string: ["a" "b"]
	s = strings.TrimSpace(s)
	s = strings.TrimPrefix(s, "[")
	s = strings.TrimSuffix(s, "]")
	var out []string
	for len(s) > 0 {
		s = strings.TrimSpace(s)
		if !strings.HasPrefix(s, "\"") {
			break
		}
		// find closing quote
		i := 1
		for i < len(s) {
			if s[i] == '\\' {
				i += 2
				continue
			}
			if s[i] == '"' {
				break
			}
			i++
		}
		if i >= len(s) {
			break
		}
		var v string
		fmt.Sscanf(s[:i+1], "%q", &v)
		out = append(out, v)
		s = s[i+1:]
	}
	return out
}

// buildOverlayPaths maps virtual /repo paths to the real harness files.
func buildOverlayPaths() (map[string]string, []string, error) {
	ov := map[string]string{}
	var files []string
	root := filepath.Join(verifRoot(), "harness")
	err := filepath.Walk(root, func(p string, info os.FileInfo, err error) error {
		if err != nil || info.IsDir() || !strings.HasSuffix(p, ".go") {
			return err
		}
		rel, _ := filepath.Rel(root, p)
		d, base := filepath.Split(rel)
		dst := filepath.Join(repoV3, d, "zz_verif_"+base)
		if strings.HasPrefix(rel, "zzverif/") {
			dst = filepath.Join(repoV3, rel)
		}
		ov[dst] = p
		files = append(files, rel)
		return nil
	})
	for _, kv := range strings.Split(os.Getenv("SYMGO_OVERLAY"), ",") {
		if p := strings.SplitN(kv, "=", 2); len(p) == 2 {
			ov[p[0]] = p[1]
		}
	}
	return ov, files, err
}

// replayFindings confirms candidates natively, package by package.
func (c *Check) replayFindings() {
	byPkg := map[string][]*Finding{}
	for _, f := range c.Findings {
		if f.Confirmed == "yes" || f.Kind == "side" {
			continue
		}
		byPkg[f.Pkg] = append(byPkg[f.Pkg], f)
	}
	// translator validation samples ride along in the same go test invocations
	tv := map[string][]replayCase{}
	for _, jr := range c.Results {
		if jr == nil || jr.Res == nil || jr.Job.NoReplay {
			continue
		}
		for _, p := range jr.Res.Paths {
			if p.End == "return" && p.PCModel != nil && p.Sampled {
				tv[jr.Job.Pkg] = append(tv[jr.Job.Pkg], replayCase{Func: jr.Job.Func, Pkg: jr.Job.Pkg, Nondet: p.NondetSeq, Model: cleanModel(p.PCModel), ExpectCovers: p.Covers, Label: jr.Job.Label})
			}
		}
	}
	pkgs := map[string]bool{}
	for p := range byPkg {
		pkgs[p] = true
	}
	for p := range tv {
		pkgs[p] = true
	}
	validated, mismatches, skipped := 0, 0, 0
	for pkg := range pkgs {
		var cases []replayCase
		fs := byPkg[pkg]
		if strings.HasSuffix(pkg, "/cmd/zlint") {
			// findings about flag processing (setLints) are replayed like any other harness; only doLint
			// candidates need the differential run
			var cli, plain []*Finding
			for _, f := range fs {
				if f.Func == "VerifC15DoLint" {
					cli = append(cli, f)
				} else {
					plain = append(plain, f)
				}
			}
			if len(plain) > 0 {
				var pc []replayCase
				for _, f := range plain {
					pc = append(pc, replayCase{Func: f.Func, Pkg: f.Pkg, Nondet: f.Nondet, Model: f.Model})
				}
				outs, raw, err := runNative(pkg, pc, 5*time.Minute)
				for i, f := range plain {
					switch {
					case err != nil || outs == nil:
						f.Confirmed, f.ReplayOut = "unknown", "native replay failed: "+fmt.Sprint(err)+" "+lastLines(raw, 15)
					case f.Kind == "assert" && containsStr(outs[i].Fails, f.Msg), f.Kind == "panic" && outs[i].Panic != "":
						f.Confirmed, f.ReplayOut = "yes", outs[i].Raw
					default:
						f.Confirmed, f.ReplayOut = "no", outs[i].Raw+" "+lastLines(raw, 6)
					}
				}
			}
			fs = cli
			if len(fs) == 0 {
				continue
			}
			// candidates about the command-line tool are confirmed by the native differential run of the real doLint
			fails, raw, err := runCLINative()
			for _, f := range fs {
				switch {
				case err != nil:
					f.Confirmed, f.ReplayOut = "unknown", "native CLI run failed: "+fmt.Sprint(err)+" "+lastLines(raw, 10)
				case len(fails) > 0:
					f.Confirmed, f.ReplayOut = "yes", strings.Join(fails, "\n")
				default:
					f.Confirmed, f.ReplayOut = "no", "the native differential run of doLint (all encodings, corrupted inputs, filtered registry) shows no deviation"
				}
			}
			continue
		}
		for _, f := range fs {
			cases = append(cases, replayCase{Func: f.Func, Pkg: f.Pkg, Nondet: f.Nondet, Model: f.Model})
		}
		nf := len(cases)
		cases = append(cases, tv[pkg]...)
		outs, raw, err := runNative(pkg, cases, 5*time.Minute)
		if err != nil || outs == nil {
			for _, f := range fs {
				f.Confirmed = "unknown"
				f.ReplayOut = "native replay failed: " + fmt.Sprint(err) + " " + lastLines(raw, 15)
			}
			c.Inconclusive = append(c.Inconclusive, "native replay failed for "+pkg+": "+fmt.Sprint(err)+" "+lastLines(raw, 15))
			continue
		}
		for i, f := range fs {
			o := outs[i]
			f.ReplayOut = o.Raw
			switch {
			case !o.Done && o.Raw == "":
				f.Confirmed = "unknown"
				f.ReplayOut = "no output: " + lastLines(raw, 15)
				c.Inconclusive = append(c.Inconclusive, "native replay produced no output for "+f.Key+": "+lastLines(raw, 8))
			case f.Kind == "panic" && o.Panic != "":
				f.Confirmed = "yes"
			case f.Kind == "assert" && containsStr(o.Fails, f.Msg):
				f.Confirmed = "yes"
			default:
				f.Confirmed = "no"
			}
		}
		for i, tc := range tv[pkg] {
			o := outs[nf+i]
			if o.Done && len(o.Fails) == 0 && o.Panic == "" && !o.Assume && equalStrs(o.Covers, tc.ExpectCovers) {
				validated++
			} else if o.Assume {
				// the sampled model could not be turned into an object the real encoder / parser accepts: nothing
				// was compared (neither a validation nor a mismatch)
				skipped++
			} else {
				mismatches++
				c.Inconclusive = append(c.Inconclusive, fmt.Sprintf("translator validation mismatch in %s: engine covers %v, native: %s", tc.Label, tc.ExpectCovers, strings.ReplaceAll(o.Raw, "\n", " / ")))
			}
		}
	}
	c.Extra["traces_validated_against_impl"] = validated
	c.Extra["translator_validation_mismatches"] = mismatches
	c.Extra["translator_validation_samples_not_realisable"] = skipped
}

func lastLines(s string, n int) string {
	ls := strings.Split(strings.TrimSpace(s), "\n")
	if len(ls) > n {
		ls = ls[len(ls)-n:]
	}
	return strings.Join(ls, " | ")
}

func containsStr(l []string, s string) bool {
	for _, x := range l {
		if x == s {
			return true
		}
	}
	return false
}

func equalStrs(a, b []string) bool {
	if len(a) != len(b) {
		return false
	}
	for i := range a {
		if a[i] != b[i] {
			return false
		}
	}
	return true
}

// runCLINative runs TestZZCLI (harness/cmd/zlint/c15native_test.go) against the working tree.
func runCLINative() ([]string, string, error) {
	tmp, err := os.MkdirTemp("", "symgo-cli-")
	if err != nil {
		return nil, "", err
	}
	defer os.RemoveAll(tmp)
	ov, _, err := buildOverlayPaths()
	if err != nil {
		return nil, "", err
	}
	ovb, _ := json.Marshal(map[string]interface{}{"Replace": ov})
	ovPath := filepath.Join(tmp, "overlay.json")
	os.WriteFile(ovPath, ovb, 0o644)
	// package main parses the command line in init(), which rejects go test's own flags: build the test binary and run it bare
	bin := filepath.Join(tmp, "cli.test")
	build := exec.Command("go", "test", "-c", "-vet=off", "-overlay", ovPath, "-o", bin, "./cmd/zlint")
	build.Dir = repoV3
	build.Env = append(os.Environ(), "GOFLAGS=-mod=mod", "GOPROXY=off", "GOSUMDB=off", "GOTOOLCHAIN=local")
	if bo, err := build.CombinedOutput(); err != nil {
		return nil, string(bo), fmt.Errorf("cannot build the native CLI test: %v", err)
	}
	cmd := exec.Command(bin)
	cmd.Dir = filepath.Join(repoV3, "cmd", "zlint")
	var out bytes.Buffer
	cmd.Stdout = &out
	cmd.Stderr = &out
	done0 := make(chan error, 1)
	cmd.Start()
	go func() { done0 <- cmd.Wait() }()
	select {
	case <-done0:
	case <-time.After(5 * time.Minute):
		cmd.Process.Kill()
	}
	raw := out.String()
	var fails []string
	done := false
	for _, l := range strings.Split(raw, "\n") {
		if strings.HasPrefix(l, "ZZ-CLI FAIL ") {
			fails = append(fails, strings.TrimPrefix(l, "ZZ-CLI FAIL "))
		}
		if strings.HasPrefix(l, "ZZ-CLI DONE") {
			done = true
		}
	}
	if !done && len(fails) == 0 {
		return nil, raw, fmt.Errorf("the native CLI test did not complete")
	}
	return fails, raw, nil
}
