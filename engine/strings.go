package main

// Go strings are modelled as SMT strings whose characters are bytes
// (every symbolic string carries the constraint "all code points <= 255").

import (
	"fmt"
	"go/token"
	"strconv"
	"strings"
	"unicode/utf8"
)

const byteRangeRe = `(re.* (re.range "\u{0}" "\u{ff}"))`

func (e *Exec) newSymString(name string) *StrV {
	e.declareInput(name, "String")
	if !e.declared[name+"#br"] {
		e.declared[name+"#br"] = true
		e.assume("(str.in_re " + name + " " + byteRangeRe + ")")
	}
	return &StrV{T: name}
}

func intOfBV(b *BV) string {
	if b.C != nil {
		return fmt.Sprint(*b.C)
	}
	if b.I != "" {
		return b.I
	}
	// peel int2bv(str.len ...) round trips
	const pfx = "((_ int2bv 64) "
	if strings.HasPrefix(b.T, pfx) && b.W == 64 {
		inner := b.T[len(pfx) : len(b.T)-1]
		if strings.HasPrefix(inner, "(str.len ") {
			return inner
		}
	}
	return "(bv2nat " + b.T + ")"
}

func (e *Exec) strLen(s *StrV) *BV {
	if s.C != nil {
		return cbv(uint64(len(*s.C)), 64)
	}
	it := "(str.len " + s.T + ")"
	if k := "lenrange#" + s.T; !e.declared[k] {
		e.declared[k] = true
		e.assume("(< " + it + " 1099511627776)")
	}
	return &BV{T: "((_ int2bv 64) " + it + ")", W: 64, I: it}
}

func (e *Exec) strBinop(op token.Token, x, y *StrV) Value {
	if x.C != nil && y.C != nil {
		a, b := *x.C, *y.C
		switch op {
		case token.EQL:
			return cbool(a == b)
		case token.NEQ:
			return cbool(a != b)
		case token.ADD:
			return cstr(a + b)
		case token.LSS:
			return cbool(a < b)
		case token.LEQ:
			return cbool(a <= b)
		case token.GTR:
			return cbool(a > b)
		case token.GEQ:
			return cbool(a >= b)
		}
	}
	if (op == token.EQL || op == token.NEQ) && (x.OID != nil && y.C != nil || y.OID != nil && x.C != nil) {
		a, c := x, y
		if y.OID != nil {
			a, c = y, x
		}
		r := oidEqualsDotted(a.OID, *c.C)
		if op == token.NEQ {
			r = bnot(r)
		}
		return r
	}
	if (op == token.EQL || op == token.NEQ) && x.OID != nil && y.OID != nil {
		r := cbool(len(x.OID) == len(y.OID))
		if len(x.OID) == len(y.OID) {
			for i := range x.OID {
				r = band(r, bvbin(token.EQL, x.OID[i], y.OID[i], false).(*BoolV))
			}
		}
		if op == token.NEQ {
			r = bnot(r)
		}
		return r
	}
	if (op == token.EQL || op == token.NEQ) && (len(x.Alts) > 0 && y.C != nil || len(y.Alts) > 0 && x.C != nil) {
		a, c := x, y
		if len(y.Alts) > 0 {
			a, c = y, x
		}
		r := altsBool(a, func(s string) bool { return s == *c.C })
		if op == token.NEQ {
			r = bnot(r)
		}
		return r
	}
	switch op {
	case token.EQL:
		return &BoolV{T: "(= " + x.T + " " + y.T + ")"}
	case token.NEQ:
		return &BoolV{T: "(not (= " + x.T + " " + y.T + "))"}
	case token.ADD:
		if x.C != nil && *x.C == "" {
			return y
		}
		if y.C != nil && *y.C == "" {
			return x
		}
		var parts []*StrV
		for _, o := range []*StrV{x, y} {
			if len(o.Parts) > 0 {
				parts = append(parts, o.Parts...)
			} else {
				parts = append(parts, o)
			}
		}
		return &StrV{T: "(str.++ " + x.T + " " + y.T + ")", Parts: parts}
	case token.LSS:
		return &BoolV{T: "(str.< " + x.T + " " + y.T + ")"}
	case token.LEQ:
		return &BoolV{T: "(str.<= " + x.T + " " + y.T + ")"}
	case token.GTR:
		return &BoolV{T: "(str.< " + y.T + " " + x.T + ")"}
	case token.GEQ:
		return &BoolV{T: "(str.<= " + y.T + " " + x.T + ")"}
	}
	e.unsupported("string binop %s", op)
	return nil
}

func (e *Exec) strIndex(s *StrV, idx *BV, site string) Value {
	if s.C != nil && idx.C != nil {
		k := idx.sval()
		if k < 0 || k >= int64(len(*s.C)) {
			panic(goPanic{msg: "index out of range (string)", site: site})
		}
		return cbv(uint64((*s.C)[k]), 8)
	}
	inb := bvcmp("bvult", idx, e.strLen(s))
	if s.C == nil {
		// compare in Int to avoid int2bv round trips
		inb = &BoolV{T: "(and (bvsge " + idx.T + " (_ bv0 64)) (< " + intOfBV(idx) + " (str.len " + s.T + ")))"}
		if idx.C != nil {
			inb = &BoolV{T: "(< " + intOfBV(idx) + " (str.len " + s.T + "))"}
		}
	}
	if !e.branch(inb) {
		panic(goPanic{msg: "index out of range (string)", site: site})
	}
	return e.strByteAt(s, intOfBV(idx))
}

// strByteAt is the byte at an in-range Int position.
func (e *Exec) strByteAt(s *StrV, pos string) *BV {
	k := -1
	if n, err := strconv.Atoi(pos); err == nil {
		k = n
	}
	return &BV{T: "((_ int2bv 8) (str.to_code (str.at " + s.T + " " + pos + ")))", W: 8, ChS: s.T, ChI: pos, ChK: k}
}

func (e *Exec) strSlice(s *StrV, lo, hi *BV, site string) Value {
	if hi == nil {
		hi = e.strLen(s)
	}
	if s.C != nil && lo.C != nil && hi.C != nil {
		l, h := lo.sval(), hi.sval()
		if l < 0 || h < l || h > int64(len(*s.C)) {
			panic(goPanic{msg: "slice bounds out of range (string)", site: site})
		}
		return cstr((*s.C)[l:h])
	}
	li, hiI := intOfBV(lo), intOfBV(hi)
	ok := &BoolV{T: fmt.Sprintf("(and (bvsge %s (_ bv0 64)) (bvsle %s %s) (<= %s (str.len %s)))", lo.T, lo.T, hi.T, hiI, s.T)}
	if !e.branch(ok) {
		panic(goPanic{msg: "slice bounds out of range (string)", site: site})
	}
	if lo.C != nil && *lo.C == 0 && hi.T == e.strLen(s).T {
		return s
	}
	return &StrV{T: fmt.Sprintf("(str.substr %s %s (- %s %s))", s.T, li, hiI, li)}
}

// strToBytes converts a string to a fresh byte slice; symbolic strings are
// bounded by StrConvMax (longer ones are cut from the exploration and recorded).
func (e *Exec) strToBytes(s *StrV) *SliceV {
	if s.C != nil {
		return e.byteSlice([]byte(*s.C))
	}
	max := e.cfg.StrConvMax
	ln := e.strLen(s)
	if !e.branch(&BoolV{T: fmt.Sprintf("(<= (str.len %s) %d)", s.T, max)}) {
		e.res.UnwindCuts["string->[]byte longer than "+fmt.Sprint(max)]++
		panic(pathEnd{"unwind-cut", "string->[]byte beyond bound"})
	}
	n := e.concretize(ln, max+1)
	arr := &ArrayV{E: make([]Value, n)}
	for i := 0; i < n; i++ {
		arr.E[i] = e.strByteAt(s, fmt.Sprint(i))
	}
	o := e.newObj(arr, "bytes(str)")
	o.StrOrigin = s
	return &SliceV{O: o, Len: cbv(uint64(n), 64), Cap: n}
}

func (e *Exec) strToRunes(s *StrV) *SliceV {
	if s.C != nil {
		rs := []rune(*s.C)
		arr := &ArrayV{E: make([]Value, len(rs))}
		for i, r := range rs {
			arr.E[i] = cbv(uint64(r), 32)
		}
		return &SliceV{O: e.newObj(arr, "runes"), Len: cbv(uint64(len(rs)), 64), Cap: len(rs)}
	}
	// symbolic string: the empty case is exact; otherwise a bounded number of runes (1..StrConvMax, tied to the
	// byte length by len/4 <= n <= len) whose values are uninterpreted functions of the string and the position
	// (an over-approximation: the runes are not tied to the bytes)
	if e.branch(&BoolV{T: "(= " + s.T + " \"\")"}) {
		return &SliceV{O: e.newObj(&ArrayV{}, "runes"), Len: cbv(0, 64), Cap: 0}
	}
	e.stub("model:[]rune(symbolic string)(empty exact; 1.." + fmt.Sprint(e.cfg.StrConvMax) + " runes as uninterpreted functions of string and position)")
	max := e.cfg.StrConvMax
	if max < 1 {
		max = 8
	}
	n := 1
	ln := "(str.len " + s.T + ")"
	for ; n < max; n++ {
		// n runes are possible iff n <= len <= 4n
		if e.branch(&BoolV{T: fmt.Sprintf("(and (<= %d %s) (<= %s %d))", n, ln, ln, 4*n)}) {
			break
		}
	}
	if n == max {
		if !e.branch(&BoolV{T: fmt.Sprintf("(and (<= %d %s) (<= %s %d))", n, ln, ln, 4*n)}) {
			e.res.UnwindCuts["[]rune(string) longer than bound"]++
			panic(pathEnd{"unwind-cut", "[]rune(string) beyond bound"})
		}
	}
	e.declareFun("uf_rune", "(String Int) (_ BitVec 32)")
	arr := &ArrayV{E: make([]Value, n)}
	for i := range arr.E {
		t := fmt.Sprintf("(uf_rune %s %d)", s.T, i)
		e.assume("(bvule " + t + " (_ bv1114111 32))")
		arr.E[i] = &BV{T: t, W: 32}
	}
	return &SliceV{O: e.newObj(arr, "runes"), Len: cbv(uint64(n), 64), Cap: n}
}

func (e *Exec) runesToStr(sl *SliceV) *StrV {
	n, ok := concInt(sl.Len)
	if !ok {
		e.unsupported("string(symbolic-length []rune)")
	}
	var rs []rune
	for i := 0; i < int(n); i++ {
		c, ok := concInt(e.sliceElem(sl, i))
		if !ok {
			e.unsupported("string([]rune) with symbolic rune")
		}
		rs = append(rs, rune(c))
	}
	return cstr(string(rs))
}

func (e *Exec) byteSlice(bs []byte) *SliceV {
	if bs == nil {
		return &SliceV{Len: cbv(0, 64)}
	}
	arr := &ArrayV{E: make([]Value, len(bs))}
	for i, b := range bs {
		arr.E[i] = cbv(uint64(b), 8)
	}
	return &SliceV{O: e.newObj(arr, "bytes"), Len: cbv(uint64(len(bs)), 64), Cap: len(bs)}
}

func byteToStrTerm(b *BV) string {
	if b.ChS != "" {
		return "(str.at " + b.ChS + " " + b.ChI + ")"
	}
	return "(str.from_code (bv2nat " + b.T + "))"
}

// bytesToStr converts a byte slice to a string term.
func (e *Exec) bytesToStr(sl *SliceV) *StrV {
	n, ok := concInt(sl.Len)
	if !ok {
		n = int64(e.concretize(sl.Len, sl.Cap+1))
	}
	if n == 0 {
		return cstr("")
	}
	if sl.O != nil && sl.O.StrOrigin != nil && sl.Off == 0 && len(sl.P) == 0 {
		if a, ok := sl.O.V.(*ArrayV); ok && len(a.E) == int(n) {
			return sl.O.StrOrigin
		}
	}
	allc := true
	var conc []byte
	var parts []string
	// a run of consecutive characters of one string is a substring of it
	run := true
	var first *BV
	for i := 0; i < int(n); i++ {
		b, ok := e.sliceElem(sl, i).(*BV)
		if !ok || b.ChS == "" || b.ChK < 0 {
			run = false
			break
		}
		if i == 0 {
			first = b
		} else if b.ChS != first.ChS || b.ChK != first.ChK+i {
			run = false
			break
		}
	}
	if run && first != nil {
		return &StrV{T: fmt.Sprintf("(str.substr %s %d %d)", first.ChS, first.ChK, n)}
	}
	for i := 0; i < int(n); i++ {
		b, ok := e.sliceElem(sl, i).(*BV)
		if !ok {
			e.unsupported("byte slice element %T", e.sliceElem(sl, i))
		}
		if b.C != nil {
			conc = append(conc, byte(*b.C))
			parts = append(parts, smtStr(string([]byte{byte(*b.C)})))
		} else {
			allc = false
			parts = append(parts, byteToStrTerm(b))
		}
	}
	if allc {
		return cstr(string(conc))
	}
	if len(parts) == 1 {
		return &StrV{T: parts[0]}
	}
	return &StrV{T: "(str.++ " + strings.Join(parts, " ") + ")"}
}

// concBytes returns the concrete content of a byte slice if fully concrete.
func (e *Exec) concBytes(sl *SliceV) ([]byte, bool) {
	n, ok := concInt(sl.Len)
	if !ok {
		return nil, false
	}
	if sl.O == nil {
		return nil, true
	}
	out := make([]byte, n)
	for i := 0; i < int(n); i++ {
		c, ok := concInt(e.sliceElem(sl, i))
		if !ok {
			return nil, false
		}
		out[i] = byte(c)
	}
	return out, true
}

// strRangeNext implements `for i, r := range s` with UTF-8 decoding.  For
// symbolic strings the decoder is unrolled per position: ASCII bytes are exact;
// a non-ASCII lead byte is decoded with full UTF-8 validation.
func (e *Exec) strRangeNext(it *mapIter, site string) Value {
	s := it.str
	pos := it.spos
	if s.C != nil {
		p := int(*pos.C)
		if p >= len(*s.C) {
			return &TupleV{E: []Value{cbool(false), cbv(0, 64), cbv(0, 32)}}
		}
		r, sz := utf8.DecodeRuneInString((*s.C)[p:])
		it.spos = cbv(uint64(p+sz), 64)
		return &TupleV{E: []Value{cbool(true), cbv(uint64(p), 64), cbv(uint64(r), 32)}}
	}
	p := int(*pos.C) // positions stay concrete: we fork on the encoded size
	more := &BoolV{T: fmt.Sprintf("(< %d (str.len %s))", p, s.T)}
	if !e.branch(more) {
		return &TupleV{E: []Value{cbool(false), cbv(0, 64), cbv(0, 32)}}
	}
	b0 := e.strByteAt(s, fmt.Sprint(p))
	if e.branch(bvcmp("bvult", b0, cbv(0x80, 8))) {
		it.spos = cbv(uint64(p+1), 64)
		return &TupleV{E: []Value{cbool(true), cbv(uint64(p), 64), resize(b0, 32, false)}}
	}
	// multi-byte: call the real decoder on a 4-byte window (bounded by what exists)
	fn := e.findFunc("unicode/utf8", "DecodeRuneInString")
	if fn == nil {
		e.unsupported("utf8.DecodeRuneInString not loaded")
	}
	rest := &StrV{T: fmt.Sprintf("(str.substr %s %d 4)", s.T, p)}
	res := e.call(fn, []Value{rest}, nil).(*TupleV)
	r := res.E[0].(*BV)
	sz := res.E[1].(*BV)
	k := e.concretize(sz, 5)
	it.spos = cbv(uint64(p+k), 64)
	return &TupleV{E: []Value{cbool(true), cbv(uint64(p), 64), r}}
}

// oidEqualsDotted: the dotted-decimal rendering of arcs equals the constant s
// exactly when s is the canonical rendering of the same arcs.
func oidEqualsDotted(arcs []*BV, s string) *BoolV {
	parts := strings.Split(s, ".")
	if s == "" {
		return cbool(len(arcs) == 0)
	}
	if len(parts) != len(arcs) {
		return cbool(false)
	}
	r := cbool(true)
	for i, p := range parts {
		n, err := strconv.ParseUint(p, 10, 63)
		if err != nil || strconv.FormatUint(n, 10) != p {
			return cbool(false)
		}
		r = band(r, bvbin(token.EQL, arcs[i], cbv(n, arcs[i].W), false).(*BoolV))
	}
	return r
}
