package main

import (
	"fmt"
	"go/constant"
	"go/token"
	"go/types"
	"os"
	"sort"
	"strings"
	"time"

	"golang.org/x/tools/go/ssa"
)

// pathEnd terminates the current path for a reason that is not a Go panic.
type pathEnd struct{ kind, msg string }

// goPanic is a Go-level panic travelling up the interpreted stack.
type goPanic struct {
	val  Value
	msg  string
	site string
}

type Config struct {
	Unwind       int  // max symbolic loop iterations per loop activation
	UnwindAssume bool // exceeding Unwind prunes the path (recorded) instead of failing it
	ListBound    int  // default bound for input slices
	ByteBound    int  // bound for input []byte
	StrConvMax   int  // bound when converting symbolic strings to byte slices
	MaxDepth     int
	MaxPaths     int
	TimeoutMs    int
	Solver       string
	MapOrder     string // "", "reverse", "swap:<k>"
	Bounds       map[string]int
	StrParams    map[string]string
	BitLenExtra  []int           // additional exact anchors for the big.Int BitLen model
	CLIEnv       bool            // C15: environment stubs of the command-line tool are active
	RecordInputs bool            // keep the names of the input symbols each path read
	AutoUF       bool            // callees without body or model become uninterpreted pure functions (sweep)
	UF0          map[string]bool // functions replaced by an arbitrary constant result per path (their argument does not change during the run)
	UF           map[string]bool // functions replaced by uninterpreted pure functions of their arguments (stub by contract)
	Calendar     bool            // calendar abstraction for time.Date / Year / Month / ... on symbolic instants (calendar.go)
	AltSolver    string          // second-opinion solver for queries the primary leaves unknown ("" = none)
	AltTimeoutMs int
	NoSpareCap   bool // do not explore "input slice has spare capacity" at append (append always reallocates)
	LazyFeas     bool // do not ask the solver at forks: both sides are explored, feasibility is decided at assertions and at the end of a path
	Deadline     time.Time
	Merge        map[string]bool
	SampleMax    int // translator validation: number of returning paths whose model is replayed natively
	SampleSeed   int64
}

func defaultConfig() *Config {
	return &Config{Unwind: 12, ListBound: 2, ByteBound: 8, StrConvMax: 8, MaxDepth: 80, MaxPaths: 20000, TimeoutMs: 20000, Solver: "z3-new", Bounds: map[string]int{}, Merge: map[string]bool{}, StrParams: map[string]string{}, UF: map[string]bool{}, UF0: map[string]bool{}}
}

type symInfo struct {
	Name string
	Sort string
}

type AssertFail struct {
	Note   string // the recovered panic, if any, on the failing path
	Msg    string
	Result string // "sat", "unknown", "concrete"
	Model  map[string]string
	Nondet []NondetRec
	Site   string
}

type NondetRec struct {
	Kind string `json:"kind"`
	Sym  string `json:"sym"`
	Val  string `json:"val,omitempty"`
	N    int    `json:"n,omitempty"`
}

type WriteRec struct {
	Tag  string
	Site string
	Fn   string
}

type PathRec struct {
	End       string // return, panic, unwind, unsupported, infeasible, depth
	Msg       string
	Site      string
	Covers    []string
	Stubs     map[string]int
	Writes    []WriteRec
	Effects   []string
	Reads     []string
	Decisions int
	Notes     map[string]string
	PCModel   map[string]string
	NondetSeq []NondetRec
	Sampled   bool
	InputSyms []string // names of the input symbols the path read (lazily declared on first read)
	LocksHeld int      // locks still held when the path ended
}

type Result struct {
	Func           string
	Paths          []PathRec
	Ends           map[string]int
	Asserts        int
	AssertsOK      int
	Fails          []AssertFail
	Inconclusive   []AssertFail
	Covers         map[string]int
	Queries        int
	SolverDur      time.Duration
	Wall           time.Duration
	Stubs          map[string]int
	FuncsRun       map[string]int
	UnwindCuts     map[string]int
	Truncated      bool
	SolverRestarts int
	Unsupported    map[string]int
	ForkSites      map[string]int
}

type deferred struct {
	fv     *FuncV
	args   []Value
	native func()
}

type frame struct {
	fn        *ssa.Function
	locals    map[ssa.Value]Value
	defers    []deferred
	symVisits map[*ssa.BasicBlock]int
	result    Value
}

type Exec struct {
	prog *ssa.Program
	cfg  *Config
	s    *Solver

	// exploration
	work   [][]bool
	script []bool
	pos    int

	// per path
	nfresh       int
	declared     map[string]bool
	syms         []symInfo
	nondet       []NondetRec
	objSeq       int
	srcExtra     map[string]int // packages executed from source within the dynamic extent of a model (e.g. net/url accessors on a concrete URL)
	lazyMemo     map[string]Value
	depth        int
	panicking    *goPanic
	covers       []string
	stubs        map[string]int
	writes       []WriteRec
	effects      []string
	notes        map[string]string
	monitorOn    bool
	monitorEpoch int
	lockDepth    map[*Obj]int
	pcLines      []string // assertions of the current path (for cross-solver replay)
	mergeDepth   int
	mergeEpoch   int
	mergeConds   []string
	mergeDefs    []string
	mergeDecls   []string
	mergeSyms    []symInfo
	mergeSeq     int
	freshPfx     string
	summaries    map[string]*summary
	ghost        map[string][]Value

	// across paths
	globals      map[*ssa.Global]*Obj
	inited       map[*ssa.Package]bool
	initMode     int
	poisoned     map[string]int
	initObjs     []*Obj
	initSaved    map[*Obj]Value
	initMaps     []*MapObj
	initMapSaved map[*MapObj][2][]Value
	dirtyObjs    []*Obj
	dirtyMaps    []*MapObj
	initDone     bool
	initSeq      int

	res           *Result
	curSite       string
	ufDecls       map[string]string // global UF declarations (sent once per solver, before any push)
	pendingUF     []string
	intrinsics    map[string]intrinsic
	lazyIface     map[string][]types.Type
	fnCache       map[string]*ssa.Function
	curFn         *ssa.Function
	lazyUnchecked bool
	pcSet         map[string]bool // branch literals asserted on this path (syntactic shortcut for repeated decisions)
	loopCache     map[*ssa.Function]map[*ssa.BasicBlock]bool
}

type intrinsic func(e *Exec, fn *ssa.Function, args []Value) Value

func NewExec(prog *ssa.Program, cfg *Config) *Exec {
	e := &Exec{prog: prog, cfg: cfg, globals: map[*ssa.Global]*Obj{}, inited: map[*ssa.Package]bool{}, poisoned: map[string]int{},
		initSaved: map[*Obj]Value{}, initMapSaved: map[*MapObj][2][]Value{}, ufDecls: map[string]string{}, fnCache: map[string]*ssa.Function{}}
	e.intrinsics = buildIntrinsics()
	e.loopCache = map[*ssa.Function]map[*ssa.BasicBlock]bool{}
	e.summaries = map[string]*summary{}
	e.declared = map[string]bool{}
	e.srcExtra = map[string]int{}
	e.lazyMemo = map[string]Value{}
	e.stubs = map[string]int{}
	e.notes = map[string]string{}
	e.ghost = map[string][]Value{}
	e.lockDepth = map[*Obj]int{}
	return e
}

func (e *Exec) unsupported(format string, a ...interface{}) {
	panic(pathEnd{"unsupported", fmt.Sprintf(format, a...)})
}

func (e *Exec) pos2s(p token.Pos) string {
	if !p.IsValid() {
		return ""
	}
	ps := e.prog.Fset.Position(p)
	f := ps.Filename
	if i := strings.Index(f, "/repo/v3/"); i >= 0 {
		f = f[i+9:]
	} else if i := strings.LastIndex(f, "/pkg/mod/"); i >= 0 {
		f = f[i+9:]
	} else if i := strings.Index(f, "/src/"); i >= 0 {
		f = f[i+5:]
	}
	return fmt.Sprintf("%s:%d", f, ps.Line)
}

// ---------- solver plumbing ----------

func (e *Exec) send(l string) {
	e.s.Send(l)
}

// reviveSolver replaces a solver that died or was killed by the watchdog and
// re-establishes the current path condition in the new process.
func (e *Exec) reviveSolver() {
	if !e.s.Dead() {
		return
	}
	old := e.s
	old.Close()
	ns := NewSolver(e.cfg.Solver, e.cfg.TimeoutMs, "")
	ns.Queries, ns.Dur, ns.Errors, ns.Kills = old.Queries, old.Dur, old.Errors, old.Kills
	ns.AltName, ns.AltTimeout, ns.AltQueries, ns.AltDecided, ns.AltDur = old.AltName, old.AltTimeout, old.AltQueries, old.AltDecided, old.AltDur
	e.s = ns
	ns.Send("(push 1)")
	for _, l := range e.pcLines {
		ns.Send(l)
	}
	if e.res != nil {
		e.res.SolverRestarts++
	}
}

func (e *Exec) declare(name, sort string) {
	if e.declared[name] {
		return
	}
	e.declared[name] = true
	l := fmt.Sprintf("(declare-const %s %s)", name, sort)
	e.send(l)
	e.pcLines = append(e.pcLines, l)
	if e.mergeDepth > 0 {
		e.mergeDecls = append(e.mergeDecls, name+"\x00"+l)
	}
}

func (e *Exec) declareInput(name, sort string) {
	if e.declared[name] {
		return
	}
	e.declare(name, sort)
	e.syms = append(e.syms, symInfo{name, sort})
	if e.mergeDepth > 0 {
		e.mergeSyms = append(e.mergeSyms, symInfo{name, sort})
	}
}

func (e *Exec) declareFun(name, sig string) {
	if e.declared[name] {
		return
	}
	e.declared[name] = true
	l := fmt.Sprintf("(declare-fun %s %s)", name, sig)
	e.send(l)
	e.pcLines = append(e.pcLines, l)
	if e.mergeDepth > 0 {
		e.mergeDecls = append(e.mergeDecls, name+"\x00"+l)
	}
}

func (e *Exec) assume(cond string) {
	l := "(assert " + cond + ")"
	e.send(l)
	e.pcLines = append(e.pcLines, l)
	if e.mergeDepth > 0 {
		e.mergeDefs = append(e.mergeDefs, cond)
	}
}

// assumeBranch adds a branch decision to the path condition.
func (e *Exec) assumeBranch(cond string) {
	if e.mergeDepth == 0 {
		if e.pcSet == nil {
			e.pcSet = map[string]bool{}
		}
		e.pcSet[cond] = true
	}
	l := "(assert " + cond + ")"
	e.send(l)
	e.pcLines = append(e.pcLines, l)
	if e.mergeDepth > 0 {
		e.mergeConds = append(e.mergeConds, cond)
	}
}

func (e *Exec) fresh(prefix, sort string) string {
	e.nfresh++
	n := fmt.Sprintf("%s%s!%d", e.freshPfx, prefix, e.nfresh)
	e.declare(n, sort)
	return n
}

func (e *Exec) freshInput(prefix, sort string) string {
	e.nfresh++
	n := fmt.Sprintf("%s%s!%d", e.freshPfx, prefix, e.nfresh)
	e.declareInput(n, sort)
	return n
}

func quoteSym(name string) string {
	for _, c := range name {
		if !(c >= 'a' && c <= 'z' || c >= 'A' && c <= 'Z' || c >= '0' && c <= '9' || c == '_' || c == '!' || c == '.') {
			return "|" + name + "|"
		}
	}
	return name
}

// checkWith asks whether the current path condition plus extra is satisfiable.
func (e *Exec) checkWith(extra string) string {
	e.send("(push 1)")
	e.send("(assert " + extra + ")")
	r := e.s.Check()
	e.send("(pop 1)")
	e.reviveSolver()
	return r
}

// branch decides which way to go on a condition, forking when both are feasible.
func (e *Exec) branch(c *BoolV) bool {
	if c.C != nil {
		return *c.C
	}
	if e.initMode > 0 {
		e.unsupported("symbolic branch during initialisation")
	}
	if e.pos < len(e.script) {
		d := e.script[e.pos]
		e.pos++
		if d {
			e.assumeBranch(c.T)
		} else {
			e.assumeBranch("(not " + c.T + ")")
		}
		return d
	}
	if !e.cfg.Deadline.IsZero() && time.Now().After(e.cfg.Deadline) {
		panic(pathEnd{"deadline", "time budget exhausted"})
	}
	if e.mergeDepth == 0 && !noShortcut {
		// a decision already taken on this path (same literal) is not asked again
		if e.pcSet[c.T] {
			e.script = append(e.script, true)
			e.pos++
			return true
		}
		if e.pcSet["(not "+c.T+")"] || strings.HasPrefix(c.T, "(not ") && e.pcSet[c.T[5:len(c.T)-1]] {
			e.script = append(e.script, false)
			e.pos++
			return false
		}
	}
	if e.cfg.LazyFeas {
		e.lazyUnchecked = true
		alt := append(append([]bool{}, e.script...), false)
		e.work = append(e.work, alt)
		e.script = append(e.script, true)
		e.pos++
		e.assumeBranch(c.T)
		return true
	}
	r1 := e.checkWith(c.T)
	tOK := r1 != "unsat" // unknown keeps the branch (sound for safety)
	var fOK bool
	if !tOK {
		fOK = true // path condition is satisfiable by invariant, so the other side must be
	} else {
		r2 := e.checkWith("(not " + c.T + ")")
		fOK = r2 != "unsat"
		if r1 == "unknown" || r2 == "unknown" {
			e.notes["unknown-branch"] = e.curSite
		}
	}
	switch {
	case tOK && fOK:
		if e.res != nil {
			e.res.ForkSites[e.curSite]++
		}
		alt := append(append([]bool{}, e.script...), false)
		e.work = append(e.work, alt)
		e.script = append(e.script, true)
		e.pos++
		e.assumeBranch(c.T)
		return true
	case tOK:
		e.script = append(e.script, true)
		e.pos++
		e.assumeBranch(c.T)
		return true
	default:
		e.script = append(e.script, false)
		e.pos++
		e.assumeBranch("(not " + c.T + ")")
		return false
	}
}

// loopBranch is branch() for an If instruction inside a frame: symbolic
// decisions at the same instruction count towards the unwind limit.
func (e *Exec) loopBranch(fr *frame, b *ssa.BasicBlock, c *BoolV) bool {
	if c.C != nil {
		return *c.C
	}
	if !e.countedBlocks(fr.fn)[b] {
		return e.branch(c)
	}
	fr.symVisits[b]++
	if fr.symVisits[b] > e.cfg.Unwind {
		site := fr.fn.String() + " @" + e.curSite
		if e.cfg.UnwindAssume {
			e.res.UnwindCuts[site]++
			panic(pathEnd{"unwind-cut", site})
		}
		panic(pathEnd{"unwind", site})
	}
	return e.branch(c)
}

// concretize forks over the possible values 0..n-1 of a small symbolic index.
func (e *Exec) concretize(idx *BV, n int) int {
	if idx.C != nil {
		return int(*idx.C)
	}
	for k := 0; k < n-1; k++ {
		if e.branch(bvcmp("=", idx, cbv(uint64(k), idx.W))) {
			return k
		}
	}
	return n - 1
}

// ---------- heap ----------

func (e *Exec) newObj(v Value, name string) *Obj {
	e.objSeq++
	o := &Obj{ID: e.objSeq, V: v, Born: e.objSeq, Name: name}
	if e.initMode > 0 && !e.initDone {
		e.initObjs = append(e.initObjs, o)
	}
	return o
}

func (e *Exec) newMap() *MapObj {
	e.objSeq++
	m := &MapObj{ID: e.objSeq, Born: e.objSeq}
	if e.initMode > 0 && !e.initDone {
		e.initMaps = append(e.initMaps, m)
	}
	return m
}

func (e *Exec) markDirty(o *Obj) {
	if e.initDone && o.Born <= e.initSeq {
		if _, ok := e.initSaved[o]; ok {
			e.dirtyObjs = append(e.dirtyObjs, o)
		}
	}
}

func (e *Exec) rawLoad(p *PtrV) Value {
	v := p.O.V
	for _, i := range p.Path {
		v = e.force(v)
		switch x := v.(type) {
		case *StructV:
			v = x.F[i]
		case *ArrayV:
			if i >= len(x.E) {
				e.unsupported("load path index beyond array")
			}
			v = x.E[i]
		default:
			e.unsupported("load path through %T", v)
		}
	}
	return v
}

func (e *Exec) load(p *PtrV, site string) Value {
	if p.O == nil {
		panic(goPanic{msg: "nil pointer dereference", site: site})
	}
	v := e.rawLoad(p)
	if _, isLazy := v.(*LazyV); isLazy {
		m := e.force(v)
		if e.mergeDepth == 0 {
			e.storeRaw(p, m)
		}
		return m
	}
	if pz, ok := v.(*Poison); ok {
		e.unsupported("poison: %s", pz.Why)
	}
	return v
}

func setPath(e *Exec, v Value, path []int, nv Value) Value {
	if len(path) == 0 {
		return nv
	}
	v = e.force(v)
	switch x := v.(type) {
	case *StructV:
		n := &StructV{F: make([]Value, len(x.F))}
		copy(n.F, x.F)
		n.F[path[0]] = setPath(e, x.F[path[0]], path[1:], nv)
		return n
	case *ArrayV:
		n := &ArrayV{E: make([]Value, len(x.E))}
		copy(n.E, x.E)
		n.E[path[0]] = setPath(e, x.E[path[0]], path[1:], nv)
		return n
	}
	e.unsupported("store path through %T", v)
	return nil
}

func (e *Exec) storeRaw(p *PtrV, nv Value) {
	e.markDirty(p.O)
	p.O.StrOrigin = nil
	p.O.V = setPath(e, p.O.V, p.Path, nv)
}

func (e *Exec) store(p *PtrV, nv Value, site string) {
	if p.O == nil {
		panic(goPanic{msg: "nil pointer dereference (store)", site: site})
	}
	if e.mergeDepth > 0 && p.O.Born <= e.mergeEpoch {
		panic(mergeAbort{"store to a pre-existing object"})
	}
	// memory of the linted object exists before the run even when its symbolic model is materialised lazily
	// (on first access, i.e. after the monitor was switched on)
	inSpare := p.O.Spare > 0 && len(p.Path) > 0 && p.Path[0] >= p.O.Spare-1
	ofObject := p.O.Born <= e.monitorEpoch || strings.HasPrefix(p.O.Tag, "lazy:")
	if e.monitorOn && e.initMode == 0 && (ofObject || strings.HasPrefix(p.O.Tag, "input:")) {
		// publishing: the stored value refers to an object made during the run
		var ref *Obj
		switch x := nv.(type) {
		case *SliceV:
			ref = x.O
		case *PtrV:
			ref = x.O
		}
		if ref != nil && ref.Born > e.monitorEpoch && !strings.HasPrefix(ref.Tag, "lazy:") && (strings.HasPrefix(p.O.Tag, "input:") || strings.HasPrefix(p.O.Tag, "lazy:")) {
			ref.Published = true
		}
	}
	if e.monitorOn && e.initMode == 0 && p.O.Published && !ofObject && e.curFn != nil && strings.Contains(e.curFn.String(), "github.com/zmap/zlint/") && !isGhostTag(p.O.Tag) {
		// a store by zlint code into memory the linted object already holds (the owner of such caches - zcrypto -
		// fills them itself; that is not recorded)
		e.writes = append(e.writes, WriteRec{Tag: "published:" + p.O.Tag + "|" + p.O.Name, Site: site, Fn: e.curFn.String()})
	}
	if e.monitorOn && e.initMode == 0 && ofObject && !isGhostTag(p.O.Tag) && !inSpare {
		fn := ""
		if e.curFn != nil {
			fn = e.curFn.String()
		}
		tag := p.O.Tag + "|" + p.O.Name
		if p.O.T != nil && len(p.Path) > 0 {
			if st, ok := p.O.T.Underlying().(*types.Struct); ok && p.Path[0] < st.NumFields() {
				f := st.Field(p.Path[0])
				if f.Exported() {
					tag += "|field:" + f.Name()
				} else {
					tag += "|unexported:" + f.Name()
				}
			}
		}
		e.writes = append(e.writes, WriteRec{Tag: tag, Site: site, Fn: fn})
	}
	e.storeRaw(p, nv)
}

// ---------- zero values, constants ----------

func (e *Exec) zero(t types.Type) Value {
	switch u := t.Underlying().(type) {
	case *types.Basic:
		if u.Info()&types.IsBoolean != 0 {
			return cbool(false)
		}
		if u.Info()&types.IsString != 0 {
			return cstr("")
		}
		if w, _ := width(t); w > 0 {
			return cbv(0, w)
		}
		if u.Kind() == types.UnsafePointer {
			return &PtrV{}
		}
		if isFloat(t) {
			return &OpaqueV{N: float64(0)}
		}
		if u.Kind() == types.UntypedNil {
			return &PtrV{}
		}
	case *types.Struct:
		s := &StructV{F: make([]Value, u.NumFields())}
		for i := 0; i < u.NumFields(); i++ {
			s.F[i] = e.zero(u.Field(i).Type())
		}
		return s
	case *types.Array:
		a := &ArrayV{E: make([]Value, u.Len())}
		var z Value
		for i := int64(0); i < u.Len(); i++ {
			if z == nil {
				z = e.zero(u.Elem())
			}
			a.E[i] = z
		}
		return a
	case *types.Pointer:
		return &PtrV{}
	case *types.Slice:
		return &SliceV{Len: cbv(0, 64)}
	case *types.Interface:
		return &IfaceV{}
	case *types.Signature:
		return &FuncV{}
	case *types.Map:
		return &MapV{}
	case *types.Chan:
		return &OpaqueV{}
	case *types.Tuple:
		tv := &TupleV{}
		for i := 0; i < u.Len(); i++ {
			tv.E = append(tv.E, e.zero(u.At(i).Type()))
		}
		return tv
	}
	e.unsupported("zero of %s", t.String())
	return nil
}

func (e *Exec) constVal(c *ssa.Const) Value {
	t := c.Type()
	if c.Value == nil {
		return e.zero(t)
	}
	switch c.Value.Kind() {
	case constant.Bool:
		return cbool(constant.BoolVal(c.Value))
	case constant.String:
		return cstr(constant.StringVal(c.Value))
	case constant.Int:
		w, _ := width(t)
		if w == 0 {
			if isFloat(t) {
				f, _ := constant.Float64Val(c.Value)
				return &OpaqueV{N: f}
			}
			e.unsupported("const type %s", t.String())
		}
		if v, ok := constant.Uint64Val(c.Value); ok {
			return cbv(v, w)
		}
		v, _ := constant.Int64Val(c.Value)
		return cbv(uint64(v), w)
	case constant.Float:
		if w, _ := width(t); w > 0 {
			v, _ := constant.Int64Val(constant.ToInt(c.Value))
			return cbv(uint64(v), w)
		}
		f, _ := constant.Float64Val(c.Value)
		return &OpaqueV{N: f}
	}
	e.unsupported("const kind %v", c.Value.Kind())
	return nil
}

func (e *Exec) get(fr *frame, v ssa.Value) Value {
	switch x := v.(type) {
	case *ssa.Const:
		return e.constVal(x)
	case *ssa.Function:
		return &FuncV{Fn: x}
	case *ssa.Global:
		return &PtrV{O: e.global(x)}
	case *ssa.Builtin:
		return x
	}
	r, ok := fr.locals[v]
	if !ok {
		e.unsupported("no value for %s in %s", v.Name(), fr.fn.String())
	}
	if p, isP := r.(*Poison); isP {
		e.unsupported("poison: %s", p.Why)
	}
	return r
}

// ---------- calls ----------

func (e *Exec) call(fn *ssa.Function, args []Value, bind []Value) Value {
	name := fn.String()
	if e.res != nil {
		e.res.FuncsRun[name]++
	}
	if h, ok := e.intrinsics[name]; ok {
		return h(e, fn, args)
	}
	if o := fn.Origin(); o != nil {
		if h, ok := e.intrinsics[o.String()]; ok {
			return h(e, fn, args)
		}
	}
	if fn.Pkg != nil && strings.HasPrefix(fn.Pkg.Pkg.Path(), zzPath) {
		return e.zzCall(fn, args)
	}
	if o := fn.Origin(); o != nil && o.Pkg != nil && strings.HasPrefix(o.Pkg.Pkg.Path(), zzPath) {
		return e.zzCall(fn, args)
	}
	if fn.Name() == "init" && fn.Pkg != nil && fn.Signature.Recv() == nil && len(fn.Params) == 0 && fn.Parent() == nil && fn == fn.Pkg.Func("init") {
		// package initialiser called from another package's init
		if !strings.HasPrefix(fn.Pkg.Pkg.Path(), "github.com/zmap/zlint/v3") {
			return nil // initialised lazily on first touch of one of its globals
		}
		if e.inited[fn.Pkg] {
			return nil
		}
		e.inited[fn.Pkg] = true
	}
	if e.initMode == 0 && e.cfg.UF0[name] {
		// stub by contract: an arbitrary result that is the same at every call on this path
		e.stub("uf0:" + name)
		return e.ufCall(name, nil, fn.Signature.Results())
	}
	if e.initMode == 0 && e.cfg.UF[name] {
		e.stub("uf:" + name)
		return e.ufCall(name, args, fn.Signature.Results())
	}
	if e.initMode == 0 && e.cfg.Merge[name] && len(fn.Blocks) > 0 {
		if v, ok := e.mergeCall(fn, args, bind); ok {
			return v
		}
	}
	if e.initMode == 0 && fn.Pkg != nil && fn.Pkg.Pkg.Path() == "net" && forbiddenNetFunc(fn.Name()) {
		e.effects = append(e.effects, "forbidden:"+name)
		e.stub("env:" + name)
		return e.ufCall(name, args, fn.Signature.Results())
	}
	if len(fn.Blocks) == 0 {
		if fn.Synthetic != "" && strings.Contains(fn.Synthetic, "wrapper") {
			e.unsupported("no body for wrapper: %s", name)
		}
		e.unsupported("no body: %s", name)
	}
	if !e.execFromSource(fn) {
		if e.cfg.AutoUF && e.initMode == 0 {
			// any callee outside the executed set without a model: an uninterpreted pure function of its arguments
			e.stub("auto-uf:" + name)
			if fn.Pkg != nil && forbiddenEffectPkg(fn.Pkg.Pkg.Path()) {
				e.effects = append(e.effects, "forbidden:"+name)
			}
			return e.ufCall(name, args, fn.Signature.Results())
		}
		e.unsupported("no stub: %s", name)
	}
	e.depth++
	if e.depth > e.cfg.MaxDepth {
		panic(pathEnd{"depth", name})
	}
	defer func() { e.depth-- }()
	fr := &frame{fn: fn, locals: make(map[ssa.Value]Value, 16), symVisits: map[*ssa.BasicBlock]int{}}
	if len(args) != len(fn.Params) {
		e.unsupported("arity mismatch calling %s: %d args for %d params", name, len(args), len(fn.Params))
	}
	for i, p := range fn.Params {
		fr.locals[p] = args[i]
	}
	for i, fv := range fn.FreeVars {
		if i < len(bind) {
			fr.locals[fv] = bind[i]
		}
	}
	saved := e.curFn
	e.curFn = fn
	defer func() { e.curFn = saved }()
	return e.runFrom(fr, fn.Blocks[0], true)
}

func (e *Exec) callFV(fv *FuncV, args []Value, site string) Value {
	if fv == nil || fv.Fn == nil {
		panic(goPanic{msg: "call of nil func", site: site})
	}
	return e.call(fv.Fn, args, fv.B)
}

func (e *Exec) runDefers(fr *frame) {
	for len(fr.defers) > 0 {
		d := fr.defers[len(fr.defers)-1]
		fr.defers = fr.defers[:len(fr.defers)-1]
		if d.native != nil {
			d.native()
		} else {
			e.callFV(d.fv, d.args, "defer")
		}
	}
}

func (e *Exec) runFrom(fr *frame, b *ssa.BasicBlock, handle bool) (ret Value) {
	fn := fr.fn
	if handle {
		defer func() {
			r := recover()
			if r == nil {
				return
			}
			gp, ok := r.(goPanic)
			if !ok || len(fr.defers) == 0 {
				panic(r)
			}
			saved := e.panicking
			e.panicking = &gp
			e.runDefers(fr)
			if e.panicking != nil {
				p := *e.panicking
				e.panicking = saved
				panic(p)
			}
			e.panicking = saved
			e.notes["recovered"] = gp.msg + " @" + gp.site
			if fn.Recover != nil {
				ret = e.runFrom(fr, fn.Recover, false)
				return
			}
			// no named results: zero values
			res := fn.Signature.Results()
			switch res.Len() {
			case 0:
				ret = nil
			case 1:
				ret = e.zero(res.At(0).Type())
			default:
				ret = e.zero(res)
			}
		}()
	}
	var prev *ssa.BasicBlock
	visits := 0
	for {
		visits++
		if visits > 2000000 {
			panic(pathEnd{"unwind", "concrete loop limit in " + fn.String()})
		}
		// phis first (parallel assignment)
		nphi := 0
		var phivals []Value
		for _, in := range b.Instrs {
			p, ok := in.(*ssa.Phi)
			if !ok {
				break
			}
			nphi++
			var pv Value
			found := false
			for i, pb := range b.Preds {
				if pb == prev {
					if e.initMode > 0 {
						pv = e.tryGet(fr, p.Edges[i])
					} else {
						pv = e.get(fr, p.Edges[i])
					}
					found = true
					break
				}
			}
			if !found {
				e.unsupported("phi without matching predecessor in %s", fn.String())
			}
			phivals = append(phivals, pv)
		}
		for i := 0; i < nphi; i++ {
			fr.locals[b.Instrs[i].(*ssa.Phi)] = phivals[i]
		}
		jumped := false
		for _, in := range b.Instrs[nphi:] {
			if p := in.Pos(); p.IsValid() {
				e.curSite = e.pos2s(p)
			}
			switch x := in.(type) {
			case *ssa.If:
				c, ok := e.get(fr, x.Cond).(*BoolV)
				if !ok {
					e.unsupported("non-bool condition")
				}
				prev = b
				if e.loopBranch(fr, b, c) {
					b = b.Succs[0]
				} else {
					b = b.Succs[1]
				}
				jumped = true
			case *ssa.Jump:
				prev = b
				b = b.Succs[0]
				jumped = true
			case *ssa.Return:
				switch len(x.Results) {
				case 0:
					return nil
				case 1:
					return e.get(fr, x.Results[0])
				}
				t := &TupleV{}
				for _, r := range x.Results {
					t.E = append(t.E, e.get(fr, r))
				}
				return t
			case *ssa.Panic:
				v := e.get(fr, x.X)
				panic(goPanic{val: v, msg: "explicit panic: " + e.describe(v), site: e.pos2s(x.Pos())})
			default:
				if e.initMode > 0 {
					e.tryInstr(fr, in)
				} else {
					e.step(fr, in)
				}
			}
			if jumped {
				break
			}
		}
		if !jumped {
			panic("fell off block in " + fn.String())
		}
	}
}

func (e *Exec) tryGet(fr *frame, v ssa.Value) (res Value) {
	defer func() {
		if r := recover(); r != nil {
			pe, ok := r.(pathEnd)
			if !ok {
				panic(r)
			}
			res = &Poison{Why: pe.msg}
		}
	}()
	return e.get(fr, v)
}

// tryInstr executes one instruction in init mode, turning failures into poison.
func (e *Exec) tryInstr(fr *frame, in ssa.Instruction) {
	defer func() {
		if r := recover(); r != nil {
			pe, ok := r.(pathEnd)
			if !ok {
				if gp, isGP := r.(goPanic); isGP {
					pe = pathEnd{"unsupported", "panic during init: " + gp.msg + " @" + gp.site}
				} else {
					panic(r)
				}
			}
			if v, isV := in.(ssa.Value); isV {
				fr.locals[v] = &Poison{Why: pe.msg}
			}
			if st, isS := in.(*ssa.Store); isS {
				if g, isG := st.Addr.(*ssa.Global); isG {
					e.poisoned["global "+g.String()+": "+pe.msg]++
					e.global(g).V = &Poison{Why: pe.msg}
				}
			}
			w := pe.msg
			if len(w) > 120 {
				w = w[:120]
			}
			e.poisoned["instr: "+w]++
		}
	}()
	e.step(fr, in)
}

func (e *Exec) describe(v Value) string {
	switch x := v.(type) {
	case *IfaceV:
		if x.T == nil {
			return "nil"
		}
		return e.describe(x.V)
	case *StrV:
		if x.C != nil {
			return *x.C
		}
		return "<symbolic string>"
	case *BV:
		if x.C != nil {
			return fmt.Sprint(x.sval())
		}
	case *PtrV:
		if x.O != nil {
			return e.describe(x.O.V)
		}
	case *StructV:
		if len(x.F) > 0 {
			return "{" + e.describe(x.F[0]) + " ...}"
		}
	}
	return fmt.Sprintf("<%T>", v)
}

// ---------- exploration driver ----------

func (e *Exec) resetPath() {
	e.pos = 0
	e.nfresh = 0
	e.declared = map[string]bool{}
	e.syms = nil
	e.nondet = nil
	e.srcExtra = map[string]int{}
	e.lazyMemo = map[string]Value{}
	e.depth = 0
	e.panicking = nil
	e.covers = nil
	e.stubs = map[string]int{}
	e.writes = nil
	e.effects = nil
	e.notes = map[string]string{}
	e.monitorOn = false
	e.lockDepth = map[*Obj]int{}
	e.pcLines = nil
	e.pcSet = nil
	e.lazyUnchecked = false
	e.ghost = map[string][]Value{}
	e.objSeq = e.initSeq
	for _, o := range e.dirtyObjs {
		o.V = e.initSaved[o]
	}
	e.dirtyObjs = nil
	for _, m := range e.dirtyMaps {
		sv := e.initMapSaved[m]
		m.K, m.V = sv[0], sv[1]
	}
	e.dirtyMaps = nil
}

// FinishInit freezes the state reached by package initialisation.
func (e *Exec) FinishInit() {
	e.initDone = true
	e.initSeq = e.objSeq
	for _, o := range e.initObjs {
		e.initSaved[o] = o.V
	}
	for _, m := range e.initMaps {
		e.initMapSaved[m] = [2][]Value{append([]Value{}, m.K...), append([]Value{}, m.V...)}
	}
	for g, o := range e.globals {
		e.tagReachable(o, "global:"+g.String(), map[interface{}]bool{})
	}
}

func (e *Exec) tagReachable(v Value, tag string, seen map[interface{}]bool) {
	switch x := v.(type) {
	case *Obj:
		if x == nil || seen[x] {
			return
		}
		seen[x] = true
		if x.Tag == "" {
			x.Tag = tag
		}
		e.tagReachable(x.V, tag, seen)
	case *PtrV:
		if x.O != nil {
			e.tagReachable(x.O, tag, seen)
		}
	case *SliceV:
		if x.O != nil {
			e.tagReachable(x.O, tag, seen)
		}
	case *StructV:
		for _, f := range x.F {
			e.tagReachable(f, tag, seen)
		}
	case *ArrayV:
		for _, f := range x.E {
			e.tagReachable(f, tag, seen)
		}
	case *IfaceV:
		if x.T != nil {
			e.tagReachable(x.V, tag, seen)
		}
	case *FuncV:
		for _, b := range x.B {
			e.tagReachable(b, tag, seen)
		}
	case *MapV:
		if x.M != nil && !seen[x.M] {
			seen[x.M] = true
			if x.M.Tag == "" {
				x.M.Tag = tag
			}
			for _, k := range x.M.K {
				e.tagReachable(k, tag, seen)
			}
			for _, k := range x.M.V {
				e.tagReachable(k, tag, seen)
			}
		}
	}
}

func newResult(name string) *Result {
	return &Result{Func: name, Ends: map[string]int{}, Covers: map[string]int{}, Stubs: map[string]int{}, FuncsRun: map[string]int{}, UnwindCuts: map[string]int{}, Unsupported: map[string]int{}, ForkSites: map[string]int{}}
}

// Run explores all paths of fn (a niladic harness function).
func (e *Exec) Run(fn *ssa.Function) *Result {
	return e.RunWith(fn, nil)
}

func (e *Exec) RunWith(fn *ssa.Function, mkArgs func(e *Exec) []Value) *Result {
	res := newResult(fn.Name())
	e.res = res
	t0 := time.Now()
	q0, d0 := e.s.Queries, e.s.Dur
	e.work = [][]bool{{}}
	sampled := 0
	eligibleSeen := 0
	for len(e.work) > 0 {
		if len(res.Paths) >= e.cfg.MaxPaths {
			res.Truncated = true
			break
		}
		if !e.cfg.Deadline.IsZero() && time.Now().After(e.cfg.Deadline) {
			res.Truncated = true
			break
		}
		e.script = e.work[len(e.work)-1]
		e.work = e.work[:len(e.work)-1]
		e.resetPath()
		e.reviveSolver()
		e.send("(push 1)")
		rec := PathRec{}
		func() {
			defer func() {
				if r := recover(); r != nil {
					switch x := r.(type) {
					case pathEnd:
						rec.End, rec.Msg = x.kind, x.msg
						rec.Site = e.curSite
					case goPanic:
						rec.End, rec.Msg, rec.Site = "panic", x.msg, x.site
					default:
						if os.Getenv("SYMGO_DEBUG") != "" {
							panic(r)
						}
						rec.End, rec.Msg = "engine-error", fmt.Sprint(r)
						rec.Site = e.curSite
					}
				}
			}()
			var args []Value
			if mkArgs != nil {
				args = mkArgs(e)
			}
			e.call(fn, args, nil)
			rec.End = "return"
		}()
		if e.cfg.LazyFeas && e.lazyUnchecked {
			// feasibility of this path was never established: decide it now when the path reports anything
			if len(e.covers) > 0 || (rec.End != "return" && rec.End != "infeasible" && rec.End != "assert-failed") {
				switch r := e.s.Check(); r {
				case "sat":
				case "unsat":
					e.reviveSolver()
					rec.End, rec.Msg = "infeasible", "path condition unsatisfiable (decided at path end)"
					e.covers = nil
				default:
					e.reviveSolver()
					e.covers = nil
					e.notes["feasibility"] = "unknown"
					if rec.End == "return" {
						rec.End, rec.Msg = "return-feasibility-unknown", ""
					}
				}
			} else if rec.End == "return" {
				e.notes["feasibility"] = "unchecked"
			}
		}
		eligible := rec.End == "return" && !usesUnreplayable(e.stubs)
		if eligible {
			eligibleSeen++
		}
		// the seed only shifts which of the replayable paths are sampled, not how many
		if eligible && sampled < e.cfg.SampleMax {
			if m := e.pathModel(); m != nil {
				rec.PCModel = m
				rec.NondetSeq = e.nondetWithModel(m)
				rec.Sampled = true
				sampled++
			}
		}
		if rec.End == "panic" {
			// keep a model of the panicking path for replay
			rec.PCModel = e.pathModel()
			rec.NondetSeq = e.nondetWithModel(rec.PCModel)
		}
		e.send("(pop 1)")
		if e.cfg.RecordInputs {
			for _, sy := range e.syms {
				rec.InputSyms = append(rec.InputSyms, sy.Name)
			}
		}
		for _, d := range e.lockDepth {
			if d > 0 {
				rec.LocksHeld += d
			}
		}
		rec.Covers = e.covers
		rec.Stubs = e.stubs
		rec.Writes = e.writes
		rec.Effects = e.effects
		rec.Notes = e.notes
		rec.Decisions = len(e.script)
		for _, c := range e.covers {
			res.Covers[c]++
		}
		for k, v := range e.stubs {
			res.Stubs[k] += v
		}
		key := rec.End
		if rec.End != "return" {
			m := rec.Msg
			if len(m) > 160 {
				m = m[:160]
			}
			key += ": " + m
		}
		if rec.End == "unsupported" {
			res.Unsupported[rec.Msg]++
		}
		res.Ends[key]++
		res.Paths = append(res.Paths, rec)
	}
	res.Queries = e.s.Queries - q0
	res.SolverDur = e.s.Dur - d0
	res.Wall = time.Since(t0)
	return res
}

// usesUnreplayable: paths through uninterpreted or environment stubs have
// models the native build cannot be steered into.
func usesUnreplayable(stubs map[string]int) bool {
	for k := range stubs {
		if strings.HasPrefix(k, "uf:") || strings.HasPrefix(k, "env:") {
			return true
		}
	}
	return false
}

type modelPref struct {
	syms []string
	term string
}

var modelPrefs = []modelPref{
	{[]string{"crl.ThisUpdate!sec", "crl.NextUpdate!sec"}, "(bvsle crl.ThisUpdate!sec crl.NextUpdate!sec)"},
	{[]string{"c.NotBefore!sec", "c.NotAfter!sec"}, "(bvsle c.NotBefore!sec c.NotAfter!sec)"},
}

// pathModel returns a model of the current path condition (all input symbols).
func (e *Exec) pathModel() map[string]string {
	if len(e.syms) == 0 {
		return map[string]string{}
	}
	// encodability preferences: among the models of the path, prefer one the real encoder accepts as a
	// template (e.g. nextUpdate not before thisUpdate); purely a choice of witness, never a constraint
	pushed := false
	for _, pref := range modelPrefs {
		ok := true
		for _, sy := range pref.syms {
			if !e.declared[sy] {
				ok = false
			}
		}
		if !ok {
			continue
		}
		if !pushed {
			e.s.Send("(push 1)")
			pushed = true
		}
		e.s.Send("(push 1)")
		e.s.Send("(assert " + pref.term + ")")
		if e.s.Check() == "sat" {
			// keep it (merge the inner frame into the outer one by re-asserting after the pop)
			e.s.Send("(pop 1)")
			e.s.Send("(assert " + pref.term + ")")
		} else {
			e.s.Send("(pop 1)")
		}
	}
	if pushed {
		defer e.s.Send("(pop 1)")
	}
	if e.s.Check() != "sat" {
		return nil
	}
	names := make([]string, len(e.syms))
	for i, s := range e.syms {
		names[i] = s.Name
	}
	return e.s.GetValues(names)
}

func (e *Exec) nondetWithModel(m map[string]string) []NondetRec {
	out := make([]NondetRec, len(e.nondet))
	copy(out, e.nondet)
	for i := range out {
		if v, ok := m[out[i].Sym]; ok {
			out[i].Val = v
		}
	}
	return out
}

func (r *Result) Summary() string {
	var sb strings.Builder
	fmt.Fprintf(&sb, "%s: paths=%d asserts=%d ok=%d fails=%d inconclusive=%d queries=%d solver=%v wall=%v\n", r.Func, len(r.Paths), r.Asserts, r.AssertsOK, len(r.Fails), len(r.Inconclusive), r.Queries, r.SolverDur.Round(time.Millisecond), r.Wall.Round(time.Millisecond))
	keys := []string{}
	for k := range r.Ends {
		keys = append(keys, k)
	}
	sort.Strings(keys)
	for _, k := range keys {
		fmt.Fprintf(&sb, "   end %-70s %d\n", k, r.Ends[k])
	}
	for _, f := range r.Fails {
		fmt.Fprintf(&sb, "   FAIL %s [%s] model=%v\n", f.Msg, f.Result, f.Model)
	}
	for _, f := range r.Inconclusive {
		fmt.Fprintf(&sb, "   INCONCLUSIVE %s [%s]\n", f.Msg, f.Result)
	}
	return sb.String()
}

// isGhostTag: package variables of the harness itself (names starting with zz)
// are ghost state, not part of the program under analysis.
func isGhostTag(tag string) bool {
	i := strings.LastIndex(tag, ".")
	return strings.HasPrefix(tag, "global:") && i >= 0 && strings.HasPrefix(tag[i+1:], "zz")
}

var noShortcut = os.Getenv("SYMGO_NOSHORTCUT") != ""

// forbiddenEffectPkg: packages through which a lint would reach the network,
// the file system, processes or the environment (C05).
func forbiddenEffectPkg(p string) bool {
	switch p {
	case "os", "os/exec", "os/signal", "os/user", "syscall", "net/http", "io/ioutil", "plugin", "net/rpc", "net/smtp", "log/syslog", "io/fs":
		return true
	}
	return false
}

func forbiddenNetFunc(n string) bool {
	for _, p := range []string{"Dial", "Lookup", "Listen", "Resolve", "Interface", "FileConn", "FileListener", "Pipe"} {
		if strings.HasPrefix(n, p) {
			return true
		}
	}
	return false
}
