package main

import (
	"fmt"
	"os"
	"path/filepath"
	"regexp"
	"strconv"
	"strings"

	"golang.org/x/tools/go/ssa"
)

// registrationCensus counts the Register*Lint call instructions in the init
// functions of the lint packages (from the SSA of /repo's current source).
func registrationCensus(prog *ssa.Program) (map[string]int, []string) {
	counts := map[string]int{}
	var pkgs []string
	for _, p := range prog.AllPackages() {
		pp := p.Pkg.Path()
		if !strings.HasPrefix(pp, zlintMod+"/lints/") {
			continue
		}
		pkgs = append(pkgs, pp)
		for _, m := range p.Members {
			fn, ok := m.(*ssa.Function)
			if !ok || !strings.HasPrefix(fn.Name(), "init") {
				continue
			}
			for _, b := range fn.Blocks {
				for _, in := range b.Instrs {
					call, ok := in.(ssa.CallInstruction)
					if !ok {
						continue
					}
					if sc := call.Common().StaticCallee(); sc != nil && sc.Pkg != nil && sc.Pkg.Pkg.Path() == lintPkg {
						switch sc.Name() {
						case "RegisterLint", "RegisterCertificateLint":
							counts["certificate"]++
						case "RegisterRevocationListLint":
							counts["crl"]++
						case "RegisterOcspResponseLint":
							counts["ocsp"]++
						}
					}
				}
			}
		}
	}
	return counts, pkgs
}

var regCallRe = regexp.MustCompile(`lint\.Register(Certificate|RevocationList|OcspResponse)?Lint\(`)

// sourceCensus counts registration calls textually in the lint source tree and
// lists the directories that contain lint files.
func sourceCensus() (int, []string) {
	n := 0
	dirs := map[string]bool{}
	filepath.Walk(filepath.Join(repoV3, "lints"), func(p string, info os.FileInfo, err error) error {
		if err != nil || info.IsDir() || !strings.HasSuffix(p, ".go") || strings.HasSuffix(p, "_test.go") {
			return nil
		}
		b, err := os.ReadFile(p)
		if err != nil {
			return nil
		}
		k := len(regCallRe.FindAll(b, -1))
		if k > 0 {
			n += k
			dirs[filepath.Dir(p)] = true
		}
		return nil
	})
	var out []string
	for d := range dirs {
		rel, _ := filepath.Rel(repoV3, d)
		out = append(out, zlintMod+"/"+rel)
	}
	sortStrings(out)
	return n, out
}

func init() {
	checks["C12"] = func(c *Check) {
		c.Technique = "symbolic execution of go/ssa + SMT (z3): bounded registration histories with arbitrary names; the real registry is built by executing every package init from SSA and then inspected; census of Register*Lint call instructions"
		c.Assume("'linked in' is a loader side condition (import closure of package zlint as reported by go/packages), not a solver verdict")
		k, ka := 2, 3
		if !c.Quick() {
			k, ka = 3, 4
		}
		for i := 1; i <= ka; i++ {
			i := i
			if i <= k {
				c.Add(&Job{Label: fmt.Sprintf("RegisterCert/history=%d,arbitrary names", i), Pkg: lintPkg, Func: "VerifC12RegisterCert", MustCover: []string{"accepted registration", "rejected registration"}, Tune: func(cf *Config) { cf.Bounds["param:c12.k"] = i }})
			}
			c.Add(&Job{Label: fmt.Sprintf("RegisterCert/history=%d,names from {empty,e_a,e_b,e_c} (all order types)", i), Pkg: lintPkg, Func: "VerifC12RegisterCert", MustCover: []string{"accepted registration", "rejected registration"}, Tune: func(cf *Config) { cf.Bounds["param:c12.k"] = i; cf.Bounds["param:c12.alphabet"] = 1 }})
		}
		c.Add(&Job{Pkg: lintPkg, Func: "VerifC12RegisterGuards", MustCover: []string{"empty name", "non-empty name"}})
		c.Add(&Job{Pkg: rootPkg, Func: "VerifC12Registry", MustCover: []string{"registry"}, NoReplay: true})
		c.Post = func(c *Check) {
			ssaCounts, ssaPkgs := registrationCensus(c.Ld.Prog)
			srcN, srcDirs := sourceCensus()
			notes := map[string]string{}
			for _, jr := range c.Results {
				if jr.Res == nil || jr.Job.Func != "VerifC12Registry" {
					continue
				}
				for _, p := range jr.Res.Paths {
					for k, v := range p.Notes {
						notes[k] = v
					}
				}
			}
			nc, _ := strconv.Atoi(notes["certificate_lints"])
			nr, _ := strconv.Atoi(notes["crl_lints"])
			no, _ := strconv.Atoi(notes["ocsp_lints"])
			c.Extra["census"] = map[string]interface{}{"registered": map[string]int{"certificate": nc, "crl": nr, "ocsp": no}, "register_call_instructions": ssaCounts, "register_calls_in_source_text": srcN, "lint_packages_linked": ssaPkgs, "lint_directories": srcDirs}
			if _, ok := notes["certificate_lints"]; !ok {
				// the registry inspection ended early (an assertion failed or it was not decided): the counts it
				// would have reported are not available, which is not by itself a census mismatch
				c.Inconclusive = append(c.Inconclusive, "census: the registry inspection did not complete, registered-lint counts unavailable")
				return
			}
			c.Side(nc == ssaCounts["certificate"] && nc > 0, fmt.Sprintf("registered certificate lints (%d) == RegisterLint/RegisterCertificateLint call instructions in the lint packages' init functions (%d)", nc, ssaCounts["certificate"]))
			c.Side(nr == ssaCounts["crl"] && nr > 0, fmt.Sprintf("registered CRL lints (%d) == RegisterRevocationListLint call instructions (%d)", nr, ssaCounts["crl"]))
			c.Side(no == ssaCounts["ocsp"] && no > 0, fmt.Sprintf("registered OCSP lints (%d) == RegisterOcspResponseLint call instructions (%d)", no, ssaCounts["ocsp"]))
			c.Side(srcN == nc+nr+no, fmt.Sprintf("registration calls in the source text of v3/lints (%d) == registered lints (%d)", srcN, nc+nr+no))
			// every directory with lint files is linked into package zlint
			linked := map[string]bool{}
			if root := c.Ld.Pkg(rootPkg); root != nil {
				for _, imp := range root.Pkg.Imports() {
					linked[imp.Path()] = true
				}
			}
			for _, d := range srcDirs {
				c.Side(linked[d], "lint directory "+d+" is imported by package zlint (linked into a default build)")
			}
		}
	}
}
