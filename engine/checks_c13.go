package main

func init() {
	checks["C13"] = func(c *Check) {
		c.Technique = "symbolic execution of go/ssa + SMT strings (z3): one unbounded symbolic string against the switch tables"
		c.Assume("strings.TrimSpace: ASCII blank model (U+0085/U+00A0 as single bytes); JSON decoder modelled for strings without escapes/control characters")
		items := 2
		if !c.Quick() {
			items = 3
		}
		c.Add(&Job{Pkg: lintPkg, Func: "VerifC13FromString", MustCover: []string{"declared source", "unknown source"}})
		c.Add(&Job{Pkg: lintPkg, Func: "VerifC13UnmarshalJSON", MustCover: []string{"declared source", "unknown source"}, Tune: func(cf *Config) { cf.StrConvMax = 16 }})
		c.Add(&Job{Pkg: lintPkg, Func: "VerifC13NamesSelectable", MustCover: []string{"names selectable"}})
		c.Add(&Job{Pkg: rootPkg, Func: "VerifC13RealRegistry", MustCover: []string{"real registry"}, NoReplay: true, Tune: func(cf *Config) { cf.Unwind = 100000 }})
		c.Add(&Job{Pkg: lintPkg, Func: "VerifC13SourceList", MustCover: []string{"list with unknown item", "list of known items"}, Tune: func(cf *Config) { cf.Bounds["param:c13.items"] = items }})
	}
	checks["C14"] = func(c *Check) {
		c.Technique = "symbolic execution of go/ssa + SMT (z3): status as arbitrary 64-bit int, label as arbitrary string"
		c.Assume("encoding/json itself is trusted: json.Marshal/Unmarshal of strings evaluated natively on concrete labels; U+FFFD substitution and map encoding are the codec's behaviour, not checked")
		c.Add(&Job{Pkg: lintPkg, Func: "VerifC14Labels", MustCover: []string{"defined status", "undefined status"}})
		c.Add(&Job{Pkg: lintPkg, Func: "VerifC14RoundTrip", MustCover: []string{"round trip"}})
		c.Add(&Job{Pkg: lintPkg, Func: "VerifC14Rejects", MustCover: []string{"known label", "unknown label"}, Tune: func(cf *Config) { cf.StrConvMax = 12 }})
		// the registry listing and the shape of a result set, by the codec's contract: which fields encoding/json
		// considers is read from the struct tags of the current source; Encode calls are recorded
		c.Assume("json.Encoder.Encode and the codec's handling of a struct are a contract (one line per Encode call, members = the struct's tagged exported fields, strings of valid UTF-8 unchanged); the zlint code around it - WriteJSON's loops, the struct tags, LintSource / LintStatus (un)marshalling - is executed")
		c.Add(&Job{Pkg: rootPkg, Func: "VerifC14Listing", MustCover: []string{"listing"}, NoReplay: true, Tune: func(cf *Config) { cf.Unwind = 4000 }})
		c.Add(&Job{Pkg: rootPkg, Func: "VerifC14ResultSetShape", MustCover: []string{"shape"}, NoReplay: true})
	}
}
