package main

import "fmt"

func init() {
	checks["C18"] = func(c *Check) {
		c.Technique = "symbolic execution of go/ssa + SMT strings (z3): domain, label and instant symbolic; the 1574-entry table looked up with a symbolic key (one ite-term), native date parsing lifted over the finitely many table values"
		c.Assume("ASCII case mapping: strings.ToLower/EqualFold are modelled by one uninterpreted lower-casing function that is length preserving, idempotent, the identity on strings without upper-case ASCII letters, distributes over concatenation and keeps '.' positions; non-ASCII case folding is outside the claim")
		c.Assume("P1 for instants")
		c.Add(&Job{Pkg: utilPkg, Func: "VerifC18Valid", MustCover: []string{"inside the period", "outside the period"}})
		pool := func(cf *Config) {
			cf.Bounds["param:c18.pool"] = 1
			cf.Bounds["param:c18.entries"], cf.Bounds["param:c18.lead"] = 1, 1
		}
		c.Add(&Job{Label: "Valid/concrete dates", Pkg: utilPkg, Func: "VerifC18Valid", MustCover: []string{"inside the period", "outside the period"}, Tune: pool})
		c.Add(&Job{Label: "HasValidTLD/concrete dates,entries=1,labels=2", Pkg: utilPkg, Func: "VerifC18HasValidTLD", MustCover: []string{"label in table", "inside the period", "outside the period", "label not in table"}, Tune: pool})
		c.Add(&Job{Pkg: utilPkg, Func: "VerifC18TableFacts", MustCover: []string{"table"}})
		c.Add(&Job{Pkg: utilPkg, Func: "VerifC18Boundaries", MustCover: []string{"boundaries"}, NoReplay: true})
		// the lint reports accordingly (symbolic: util.HasValidTLD uninterpreted; pool: real table, concrete names)
		c.Assume("lint-level job: util.HasValidTLD and net.ParseIP are uninterpreted functions of their arguments in the symbolic variant (HasValidTLD's own law is the jobs above); DNS names <= 2")
		c.Add(&Job{Label: "lint/e_dnsname_not_valid_tld", Pkg: cabfBRPkg, Func: "VerifC18TLDLint", MustCover: []string{"a name without valid TLD", "all names have a valid TLD", "does not apply"},
			Tune: func(cf *Config) {
				cf.UF["github.com/zmap/zlint/v3/util.HasValidTLD"] = true
				cf.ListBound = 2
				cf.AutoUF = true
			}})
		c.Add(&Job{Label: "lint/e_dnsname_not_valid_tld/pool", Pkg: cabfBRPkg, Func: "VerifC18TLDLint", MustCover: []string{"a name without valid TLD", "all names have a valid TLD"},
			Tune: func(cf *Config) { cf.Bounds["param:pool"] = 1; cf.AutoUF = true; cf.Unwind = 4000 }})
		maxEntries, maxLead := 2, 2
		if !c.Quick() {
			maxEntries, maxLead = 3, 3
		}
		for en := 0; en <= maxEntries; en++ {
			for ld := 0; ld <= maxLead; ld++ {
				en, ld := en, ld
				cov := []string{"label not in table"}
				if en > 0 {
					cov = append(cov, "label in table", "inside the period", "outside the period")
				}
				c.Add(&Job{Label: fmt.Sprintf("HasValidTLD/entries=%d,labels=%d", en, ld+1), Pkg: utilPkg, Func: "VerifC18HasValidTLD", MustCover: cov,
					Tune: func(cf *Config) { cf.Bounds["param:c18.entries"], cf.Bounds["param:c18.lead"] = en, ld }})
			}
		}
	}
}
