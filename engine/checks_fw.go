package main

import "fmt"

var kindNames = []string{"certificate", "crl", "ocsp"}

// scopeStubs replaces the three scope predicates by arbitrary constants (they
// are checked against their oracle separately, C04 scope jobs).
func scopeStubs(cf *Config) {
	cf.UF0["github.com/zmap/zlint/v3/util.IsServerAuthCert"] = true
	cf.UF0["github.com/zmap/zlint/v3/util.IsEmailProtectionCert"] = true
	cf.UF0["github.com/zmap/zlint/v3/util.IsCodeSigning"] = true
}

func init() {
	checks["C01"] = func(c *Check) {
		c.Technique = "symbolic execution of go/ssa + SMT (z3): Lint*Ex, execute*, updateErrorStatePresent, the three Execute wrappers (defer/recover included) over registries of stub lints with symbolic behaviour"
		c.Assume("stub lints return one of the seven defined statuses (the real lints' statuses are literals; the sweep checks them)")
		c.Assume("time.Now is an arbitrary instant (Timestamp is outside the property)")
		k := 2
		if !c.Quick() {
			k = 3
		}
		for kind := 0; kind < 3; kind++ {
			kind := kind
			c.Add(&Job{Label: fmt.Sprintf("ResultSet/%s,lints=%d", kindNames[kind], k), Pkg: rootPkg, Func: "VerifC01ResultSet", MustCover: []string{"result set"}, PanicsAreFindings: true,
				Tune: func(cf *Config) { cf.Bounds["param:fw.kind"], cf.Bounds["param:fw.k"] = kind, k; scopeStubs(cf) }})
		}
		c.Add(&Job{Label: "ResultSet/certificate,lints=2,sources symbolic (scope gates fire)", Pkg: rootPkg, Func: "VerifC01ResultSet", MustCover: []string{"result set"}, PanicsAreFindings: true,
			Tune: func(cf *Config) {
				cf.Bounds["param:fw.kind"], cf.Bounds["param:fw.k"], cf.Bounds["param:fw.scoped"], cf.Bounds["param:fw.outofscope"] = 0, 2, 1, 1
			}})
		c.Add(&Job{Pkg: rootPkg, Func: "VerifC01Guards", MustCover: []string{"guards"}})
	}
}

func addOrderJobs(c *Check, prop string, covers map[int][]string) {
	for kind := 0; kind < 3; kind++ {
		kind := kind
		c.Add(&Job{Label: fmt.Sprintf("FrameworkOrder/%s", kindNames[kind]), Pkg: rootPkg, Func: "VerifFrameworkOrder", MustCover: covers[kind], PanicsAreFindings: true,
			Tune: func(cf *Config) { cf.Bounds["param:fw.kind"] = kind; cf.StrParams["fw.prop"] = prop; scopeStubs(cf) }})
	}
	if prop == "C04" {
		for kind := 0; kind < 3; kind++ {
			kind := kind
			c.Add(&Job{Label: "FreshInstance/" + kindNames[kind], Pkg: rootPkg, Func: "VerifC04FreshInstance", MustCover: []string{"three executions"}, PanicsAreFindings: true,
				Tune: func(cf *Config) { cf.Bounds["param:fw.kind"] = kind; scopeStubs(cf) }})
		}
		// the scope gate against the real predicates on certificates from a pool (replayable)
		c.Add(&Job{Label: "FrameworkOrder/certificate, scope pool, real predicates", Pkg: rootPkg, Func: "VerifFrameworkOrder", MustCover: []string{"out of scope", "body verdict"}, PanicsAreFindings: true,
			Tune: func(cf *Config) {
				cf.Bounds["param:fw.kind"] = 0
				cf.StrParams["fw.prop"] = prop
				cf.Bounds["param:fw.scopepool"] = 1
			}})
	}
}

func init() {
	checks["C04"] = func(c *Check) {
		c.Technique = "symbolic execution of go/ssa + SMT (z3): the three Execute wrappers under Lint*Ex with a call-logging stub lint of arbitrary source, window, applicability and body outcome; scope predicates against an arc-wise oracle on an arbitrary certificate"
		c.Assume("in the ordering jobs the scope predicates are arbitrary constants per run (stub by contract); they are compared with their oracle in the scope jobs")
		cert := []string{"out of scope", "does not apply", "not effective", "body panics", "body verdict"}
		other := []string{"does not apply", "not effective", "body verdict"}
		addOrderJobs(c, "C04", map[int][]string{0: cert, 1: other, 2: other})
		for kind := 0; kind < 3; kind++ {
			kind := kind
			c.Add(&Job{Label: "ConfigOrder/" + kindNames[kind], Pkg: rootPkg, Func: "VerifC04ConfigOrder", MustCover: []string{"configuration error", "configured, does not apply", "configured and run"}, PanicsAreFindings: true,
				Tune: func(cf *Config) { cf.Bounds["param:fw.kind"] = kind; scopeStubs(cf) }})
		}
		scope := func(cf *Config) {
			for _, m := range []string{"github.com/zmap/zlint/v3/util.c04Is", "github.com/zmap/zlint/v3/util.c04HasPrefix", "(github.com/zmap/zcrypto/encoding/asn1.ObjectIdentifier).Equal"} {
				cf.Merge[m] = true
			}
			cf.ListBound = 1
			cf.Bounds["*.ExtKeyUsage"] = 2
			cf.Bounds["*.EmailAddresses"] = 1
			if !c.Quick() {
				cf.Bounds["*.EmailAddresses"] = 2
				cf.Bounds["*.PolicyIdentifiers"] = 2
				cf.Bounds["*.ExtKeyUsage"] = 3
				cf.Bounds["*.UnknownExtKeyUsage"] = 2
			}
		}
		c.Add(&Job{Pkg: utilPkg, Func: "VerifC04ServerAuthScope", MustCover: []string{"server-auth scope", "outside server-auth scope"}, Tune: scope})
		c.Add(&Job{Pkg: utilPkg, Func: "VerifC04EmailScope", MustCover: []string{"email scope", "outside email scope"}, Tune: scope})
		c.Add(&Job{Pkg: utilPkg, Func: "VerifC04CodeSigningScope", MustCover: []string{"code-signing scope", "outside code-signing scope"}, Tune: scope})
	}
}

func init() {
	checks["C07"] = func(c *Check) {
		c.Technique = "symbolic execution of go/ssa + SMT (z3): self-composition - one object linted with a registry of stub lints and with every registry obtained from it by the real Filter (include list chosen symbolically); results compared"
		c.Assume("L3 (no cross-lint channel): a lint's verdict is a function of the lint, the object and the configuration - the stub lints' behaviour is symbolic but the same in both runs; the sweep's write monitor (C05) justifies this for the real lints")
		k := 2
		if !c.Quick() {
			k = 3
		}
		for kind := 0; kind < 3; kind++ {
			kind := kind
			c.Add(&Job{Label: fmt.Sprintf("Independence/%s,lints=%d", kindNames[kind], k), Pkg: rootPkg, Func: "VerifC07Independence", MustCover: []string{"selected lint", "unselected lint"}, PanicsAreFindings: true,
				Tune: func(cf *Config) { cf.Bounds["param:fw.kind"], cf.Bounds["param:fw.k"] = kind, k; scopeStubs(cf) }})
			if kind == 0 {
				addReadOnlyHelperJobs(c)
			}
			c.Add(&Job{Label: "Configured/" + kindNames[kind], Pkg: rootPkg, Func: "VerifC07Configured", MustCover: []string{"selected lint", "unselected lint"}, PanicsAreFindings: true,
				Tune: func(cf *Config) { cf.Bounds["param:fw.kind"] = kind; scopeStubs(cf) }})
		}
	}
}

func init() {
	checks["C11"] = func(c *Check) {
		c.Technique = "symbolic execution of go/ssa + SMT (z3) of MaybeConfigure/Configure/deserializeConfigInto, the three Execute wrappers, SetConfiguration/Filter/NewRegistry with configurable stub lints; the configuration document ranges over a pool of TOML shapes and is parsed/unmarshalled by the real go-toml library called natively by the engine"
		c.Assume("go-toml (parser, Tree.Get, Tree.Unmarshal) is trusted and evaluated natively on concrete documents; the reflection walker resolveHigherScopedReferences is modelled as a no-op for configuration structs without higher-scoped fields (true of all four configurable lints in the tree and of the stubs)")
		c.Assume("documents: empty, unrelated section, another lint's section, unknown key, well-typed options, ill-typed value (string, float), scalar / string / array where a table is expected, array of tables")
		for kind := 0; kind < 3; kind++ {
			kind := kind
			c.Add(&Job{Label: "Config/" + kindNames[kind], Pkg: rootPkg, Func: "VerifC11Config", MustCover: []string{"unrelated or empty configuration", "option set", "section cannot be applied", "configurable lint does not apply"}, PanicsAreFindings: true,
				Tune: func(cf *Config) { cf.Bounds["param:fw.kind"] = kind; scopeStubs(cf) }})
		}
	}
}
