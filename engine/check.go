package main

func cmdCheck(args []string) int { return 0 }
