package main

// The check driver: `symgo check <ID> <quick|thorough>` loads /repo's current
// working tree (plus harness overlay), runs the property's harness functions
// symbolically, replays every counterexample natively against the real build,
// matches confirmed violations with /verif/known_findings.json, writes
// /verif/evidence/<ID>.json and exits 0 / 1.

import (
	"crypto/sha256"
	"encoding/json"
	"fmt"
	"os"
	"path/filepath"
	"sort"
	"strconv"
	"strings"
	"sync"
	"time"

	"golang.org/x/tools/go/ssa"
)

type Job struct {
	Label    string
	Pkg      string // import path of the harness package
	Func     string
	InitPkg  string // package whose init chain is run first ("" = Pkg)
	Tune     func(c *Config)
	Args     func(e *Exec) []Value
	NoReplay bool
	// KeyOf derives the known-finding key of a failure (default: "<Func>: <msg>")
	KeyOf func(f *AssertFail) string
	// PanicsAreFindings: a path ending in an uncaught Go panic is a candidate violation
	PanicsAreFindings bool
	Sweep             bool // a per-lint sweep job: "not decided" outcomes are summarised per lint instead of listed line by line
	MustCover         []string
}

type JobResult struct {
	Job      *Job
	Res      *Result
	Err      string
	Poisoned map[string]int
}

type Finding struct {
	Note       string            `json:"note,omitempty"`
	Key        string            `json:"key"`
	Msg        string            `json:"msg"`
	Func       string            `json:"func"`
	Pkg        string            `json:"pkg"`
	Model      map[string]string `json:"model,omitempty"`
	Nondet     []NondetRec       `json:"nondet,omitempty"`
	Site       string            `json:"site,omitempty"`
	Kind       string            `json:"kind"`      // assert | panic
	Confirmed  string            `json:"confirmed"` // yes | no | unknown
	ReplayOut  string            `json:"replay_out,omitempty"`
	ReplayPath string            `json:"replay_path,omitempty"`
}

type Check struct {
	ID           string
	Tier         string
	Seed         int64
	T0           time.Time
	Ld           *Loaded
	Jobs         []*Job
	Results      []*JobResult
	Findings     []*Finding
	Assumptions  []string
	Notes        []string
	Inconclusive []string
	Extra        map[string]interface{}
	Technique    string
	sideOK       int
	sideTotal    int
	Samples      []interface{}
	Post         func(c *Check) // side conditions evaluated after the jobs ran
}

type checkFn func(c *Check)

var checks = map[string]checkFn{}

func (c *Check) Quick() bool { return c.Tier == "quick" }

func (c *Check) Add(j *Job) *Job {
	if j.Label == "" {
		j.Label = j.Func
	}
	c.Jobs = append(c.Jobs, j)
	return j
}

func (c *Check) Note(format string, a ...interface{}) {
	c.Notes = append(c.Notes, fmt.Sprintf(format, a...))
}

func (c *Check) Assume(s string) { c.Assumptions = append(c.Assumptions, s) }

// Side records a non-solver side condition (census, loader facts).
func (c *Check) Side(ok bool, what string) {
	c.sideTotal++
	if ok {
		c.sideOK++
	} else {
		c.Findings = append(c.Findings, &Finding{Key: "side: " + what, Msg: what, Kind: "side", Confirmed: "yes"})
	}
}

func cmdCheck(args []string) int {
	if len(args) < 1 {
		fmt.Fprintln(os.Stderr, "usage: symgo check <ID> [quick|thorough]")
		return 2
	}
	id := args[0]
	tier := "quick"
	if len(args) > 1 {
		tier = args[1]
	}
	if t := os.Getenv("VERIF_TIER"); t != "" && len(args) < 2 {
		tier = t
	}
	fn, ok := checks[id]
	if !ok {
		fmt.Fprintln(os.Stderr, "no check for", id)
		return 2
	}
	seed, _ := strconv.ParseInt(os.Getenv("VERIF_SEED"), 10, 64)
	c := &Check{ID: id, Tier: tier, Seed: seed, T0: time.Now(), Extra: map[string]interface{}{}}
	ld, err := loadProgram([]string{zlintMod + "/...", zlintMod + "/zzverif"}, nil)
	if err != nil {
		// the tree does not build with the harness overlay: nothing was explored
		fmt.Println("ENGINE-ERROR: cannot load /repo/v3:", err)
		c.writeEvidence(0)
		return 3
	}
	c.Ld = ld
	fn(c)
	c.runJobs()
	if c.Post != nil {
		c.Post(c)
	}
	c.collect()
	c.replayFindings()
	return c.finish()
}

func (c *Check) workers() int {
	n := 16
	if v, err := strconv.Atoi(os.Getenv("SYMGO_WORKERS")); err == nil && v > 0 {
		n = v
	}
	return n
}

func (c *Check) runJobs() {
	c.Results = make([]*JobResult, len(c.Jobs))
	var wg sync.WaitGroup
	sem := make(chan struct{}, c.workers())
	for i, j := range c.Jobs {
		wg.Add(1)
		go func(i int, j *Job) {
			defer wg.Done()
			sem <- struct{}{}
			defer func() { <-sem }()
			c.Results[i] = c.runJob(j)
		}(i, j)
	}
	wg.Wait()
}

func (c *Check) runJob(j *Job) (jr *JobResult) {
	jr = &JobResult{Job: j}
	defer func() {
		if r := recover(); r != nil {
			jr.Err = fmt.Sprint("engine panic: ", r)
		}
	}()
	p := c.Ld.Pkg(j.Pkg)
	if p == nil {
		jr.Err = "package not loaded: " + j.Pkg
		return
	}
	fn := p.Func(j.Func)
	if fn == nil {
		jr.Err = "harness function not found: " + j.Func
		return
	}
	cfg := defaultConfig()
	if c.Tier == "thorough" {
		cfg.ListBound, cfg.ByteBound, cfg.Unwind, cfg.TimeoutMs, cfg.StrConvMax = 3, 16, 24, 120000, 16
	}
	cfg.SampleMax, cfg.SampleSeed = 3, c.Seed
	if c.Tier == "thorough" {
		cfg.SampleMax = 10
	}
	if j.NoReplay {
		cfg.SampleMax = 0
	}
	budget := 5 * time.Minute
	if c.Tier == "thorough" {
		budget = 40 * time.Minute
	}
	if v, err := strconv.Atoi(os.Getenv("SYMGO_JOB_BUDGET_S")); err == nil && v > 0 {
		budget = time.Duration(v) * time.Second
	}
	cfg.Deadline = time.Now().Add(budget)
	if j.Tune != nil {
		j.Tune(cfg)
	}
	if sv := os.Getenv("SYMGO_SOLVER"); sv != "" {
		cfg.Solver = sv
	}
	logp := ""
	if d := os.Getenv("SYMGO_SMTLOG"); d != "" {
		logp = filepath.Join(d, j.Label+".smt2")
	}
	s := NewSolver(cfg.Solver, cfg.TimeoutMs, logp)
	s.AltName, s.AltTimeout = cfg.AltSolver, cfg.AltTimeoutMs
	defer s.Close()
	e := NewExec(c.Ld.Prog, cfg)
	e.s = s
	ip := p
	if j.InitPkg != "" {
		ip = c.Ld.Pkg(j.InitPkg)
	}
	if ip != nil {
		e.runInit(ip)
	}
	e.FinishInit()
	jr.Poisoned = e.poisoned
	jr.Res = e.RunWith(fn, j.Args)
	return
}

func defaultKey(j *Job, f *AssertFail) string {
	return j.Label + ": " + f.Msg
}

// collect turns raw results into findings and inconclusive notes.
func (c *Check) collect() {
	for _, jr := range c.Results {
		j := jr.Job
		if jr.Err != "" {
			if !j.Sweep {
				c.Inconclusive = append(c.Inconclusive, j.Label+": "+jr.Err)
			}
			continue
		}
		r := jr.Res
		quiet := j.Sweep
		for i := range r.Fails {
			f := &r.Fails[i]
			key := defaultKey(j, f)
			if j.KeyOf != nil {
				key = j.KeyOf(f)
			}
			fd := &Finding{Key: key, Note: f.Note, Msg: f.Msg, Func: j.Func, Pkg: j.Pkg, Model: cleanModel(f.Model), Nondet: f.Nondet, Site: f.Site, Kind: "assert", Confirmed: "unknown"}
			if strings.HasPrefix(f.Msg, "[monitor] ") && (f.Result == "concrete" || f.Result == "sat") {
				// an assertion about the engine's ghost monitors (stores into pre-existing memory, locks held): the
				// native build has no such monitor, so there is nothing to replay; the observation was made on a
				// feasible path of the real code as executed by the engine
				fd.Kind, fd.Confirmed = "side", "yes"
				fd.ReplayOut = "monitor observation on a feasible path (" + f.Result + "); not replayable natively"
			}
			c.Findings = append(c.Findings, fd)
		}
		for _, f := range r.Inconclusive {
			if !quiet {
				c.Inconclusive = append(c.Inconclusive, fmt.Sprintf("%s: assertion %q undecided (%s)", j.Label, f.Msg, f.Result))
			}
		}
		if r.Truncated && !quiet {
			c.Inconclusive = append(c.Inconclusive, j.Label+": exploration truncated (path or time budget)")
		}
		for k, n := range r.Ends {
			switch {
			case strings.HasPrefix(k, "unsupported"), strings.HasPrefix(k, "unwind:"), strings.HasPrefix(k, "engine-error"), strings.HasPrefix(k, "depth"), strings.HasPrefix(k, "deadline"):
				if !quiet {
					c.Inconclusive = append(c.Inconclusive, fmt.Sprintf("%s: %d path(s) ended %s", j.Label, n, k))
				}
			}
		}
		if j.PanicsAreFindings {
			for pi := range r.Paths {
				p := &r.Paths[pi]
				if p.End == "panic" {
					key := j.Func + ": panic " + p.Msg + " @" + p.Site
					c.Findings = append(c.Findings, &Finding{Key: key, Msg: "uncaught panic: " + p.Msg, Func: j.Func, Pkg: j.Pkg, Model: cleanModel(p.PCModel), Nondet: p.NondetSeq, Site: p.Site, Kind: "panic", Confirmed: "unknown"})
				}
			}
		}
		for _, lbl := range j.MustCover {
			if quiet {
				break
			}
			if r.Covers[lbl] == 0 {
				c.Inconclusive = append(c.Inconclusive, fmt.Sprintf("%s: cover label %q not reached (vacuity guard)", j.Label, lbl))
			}
		}
	}
	// dedupe findings by key, keep first
	seen := map[string]bool{}
	var out []*Finding
	for _, f := range c.Findings {
		if seen[f.Key] {
			continue
		}
		seen[f.Key] = true
		out = append(out, f)
	}
	c.Findings = out
}

func cleanModel(m map[string]string) map[string]string {
	out := map[string]string{}
	for k, v := range m {
		out[strings.Trim(k, "|")] = v
	}
	return out
}

// ---------- known findings ----------

type KnownFinding struct {
	Property string `json:"property"`
	Key      string `json:"key"`
	Status   string `json:"status"` // known | fixed
	Commit   string `json:"commit,omitempty"`
	What     string `json:"what"`
}

func loadKnown() []KnownFinding {
	b, err := os.ReadFile(filepath.Join(verifRoot(), "known_findings.json"))
	if err != nil {
		return nil
	}
	var k struct {
		Findings []KnownFinding `json:"findings"`
	}
	if json.Unmarshal(b, &k) != nil {
		return nil
	}
	return k.Findings
}

func (c *Check) finish() int {
	known := loadKnown()
	viol := 0
	knownHits := 0
	unconfirmed := 0
	sort.Slice(c.Findings, func(i, j int) bool { return c.Findings[i].Key < c.Findings[j].Key })
	for _, f := range c.Findings {
		if f.Confirmed != "yes" {
			unconfirmed++
			fmt.Printf("UNCONFIRMED: property=%s %s (native replay did not reproduce: %s)\n", c.ID, f.Key, firstLine(f.ReplayOut))
			continue
		}
		isKnown := false
		for _, k := range known {
			if k.Property == c.ID && k.Status == "known" && k.Key == f.Key {
				isKnown = true
				fmt.Printf("KNOWN-FINDING: property=%s %s\n", c.ID, k.What)
				knownHits++
			}
		}
		if isKnown {
			continue
		}
		viol++
		rp := f.ReplayPath
		if rp == "" {
			rp = c.saveReplay(f)
		}
		fmt.Printf("VIOLATION property=%s replay=%s\n", c.ID, rp)
		fmt.Printf("  what: %s [%s] %s\n", f.Key, f.Msg, f.Note)
	}
	for _, s := range c.Inconclusive {
		fmt.Println("INCONCLUSIVE:", s)
	}
	c.Extra["known_findings_reported"] = knownHits
	c.Extra["unconfirmed_candidates"] = unconfirmed
	c.writeEvidence(viol)
	npaths, nq, nass := 0, 0, 0
	for _, jr := range c.Results {
		if jr.Res != nil {
			npaths += len(jr.Res.Paths)
			nq += jr.Res.Queries
			nass += jr.Res.Asserts
		}
	}
	fmt.Printf("%s %s: jobs=%d paths=%d assertions=%d queries=%d findings=%d violations=%d known=%d unconfirmed=%d inconclusive=%d wall=%.1fs\n",
		c.ID, c.Tier, len(c.Jobs), npaths, nass, nq, len(c.Findings), viol, knownHits, unconfirmed, len(c.Inconclusive), time.Since(c.T0).Seconds())
	if viol > 0 {
		return 1
	}
	if len(c.Inconclusive) > 0 && os.Getenv("SYMGO_STRICT") != "" {
		return 3
	}
	return 0
}

func firstLine(s string) string {
	s = strings.TrimSpace(s)
	if i := strings.IndexByte(s, '\n'); i >= 0 {
		s = s[:i]
	}
	if len(s) > 200 {
		s = s[:200]
	}
	return s
}

func (c *Check) saveReplay(f *Finding) string {
	dir := filepath.Join(verifRoot(), "replays", c.ID)
	os.MkdirAll(dir, 0o755)
	h := sha256.Sum256([]byte(f.Key))
	p := filepath.Join(dir, fmt.Sprintf("%x.json", h[:6]))
	b, _ := json.MarshalIndent(map[string]interface{}{"property": c.ID, "finding": f, "cases": []replayCase{{Func: f.Func, Pkg: f.Pkg, Nondet: f.Nondet, Model: f.Model}}}, "", " ")
	os.WriteFile(p, b, 0o644)
	f.ReplayPath = p
	return p
}

// ---------- evidence ----------

func (c *Check) writeEvidence(viol int) {
	states, trans, asserts, assertsOK := 0, 0, 0, 0
	var solverMs int64
	stubs := map[string]int{}
	funcs := map[string]bool{}
	unwindCuts := map[string]int{}
	var samples []interface{}
	jobsum := []map[string]interface{}{}
	for _, jr := range c.Results {
		if jr == nil || jr.Res == nil {
			continue
		}
		r := jr.Res
		states += len(r.Paths)
		trans += r.Queries
		asserts += r.Asserts
		assertsOK += r.AssertsOK
		solverMs += r.SolverDur.Milliseconds()
		for k, v := range r.Stubs {
			stubs[k] += v
		}
		for k, v := range r.UnwindCuts {
			unwindCuts[k] += v
		}
		for k := range r.FuncsRun {
			if strings.HasPrefix(k, "github.com/zmap/zlint") || strings.HasPrefix(k, "(github.com/zmap/zlint") || strings.HasPrefix(k, "(*github.com/zmap/zlint") {
				if !strings.Contains(k, "zzverif") {
					funcs[k] = true
				}
			}
		}
		ends := map[string]int{}
		for k, v := range r.Ends {
			ends[k] = v
		}
		jobsum = append(jobsum, map[string]interface{}{"job": jr.Job.Label, "paths": len(r.Paths), "assertions": r.Asserts, "assertions_unsat": r.AssertsOK, "queries": r.Queries, "solver_ms": r.SolverDur.Milliseconds(), "ends": ends, "covers": r.Covers})
		if len(samples) < 6 && len(r.Paths) > 0 {
			idx := int(c.Seed) % len(r.Paths)
			if idx < 0 {
				idx = -idx
			}
			p := r.Paths[idx]
			samples = append(samples, map[string]interface{}{"job": jr.Job.Label, "path_index": idx, "end": p.End, "decisions": p.Decisions, "covers": p.Covers, "stubs": p.Stubs})
		}
	}
	samples = append(samples, c.Samples...)
	for _, f := range c.Findings {
		if len(samples) < 12 {
			samples = append(samples, map[string]interface{}{"finding": f.Key, "confirmed": f.Confirmed, "model": f.Model})
		}
	}
	if len(samples) == 0 {
		samples = append(samples, "no path explored")
	}
	fl := make([]string, 0, len(funcs))
	for k := range funcs {
		fl = append(fl, k)
	}
	sort.Strings(fl)
	if states < 1 {
		states = 1
	}
	if trans < 1 {
		trans = 1
	}
	validated, _ := c.Extra["traces_validated_against_impl"].(int)
	cov := map[string]interface{}{
		"states": states, "transitions": trans, "traces_validated_against_impl": validated, "samples": samples,
		"explanation":        "states = feasible paths explored by the symbolic executor over the go/ssa form of /repo's current source; transitions = SMT queries discharged (branch feasibility + assertions); an assertion counts as proved only on `unsat`",
		"assertions":         asserts,
		"assertions_unsat":   assertsOK,
		"solver_ms":          solverMs,
		"solver":             "z3-new 5.1.0 (z3 -in, one process per job, push/pop)",
		"functions_encoded":  fl,
		"stubs_used":         stubs,
		"unwind_cuts":        unwindCuts,
		"jobs":               jobsum,
		"inconclusive":       c.Inconclusive,
		"notes":              c.Notes,
		"side_conditions":    map[string]int{"checked": c.sideTotal, "held": c.sideOK},
		"harness_files":      c.harnessFiles(),
		"source_fingerprint": repoFingerprint(),
		"load_build_s":       loadSecs(c.Ld),
	}
	for k, v := range c.Extra {
		cov[k] = v
	}
	ev := map[string]interface{}{
		"property_id": c.ID, "tier": c.Tier, "seed": c.Seed, "level": "model_checking",
		"coverage": cov, "assumptions": c.Assumptions, "wall_s": time.Since(c.T0).Seconds(), "violations": viol,
	}
	dir := filepath.Join(verifRoot(), "evidence")
	if d := os.Getenv("SYMGO_EVIDENCE_DIR"); d != "" {
		// development and seeded-change runs (overlay) must not overwrite the evidence of the real tree
		dir = d
	}
	os.MkdirAll(dir, 0o755)
	b, _ := json.MarshalIndent(ev, "", " ")
	os.WriteFile(filepath.Join(dir, c.ID+".json"), b, 0o644)
}

func loadSecs(l *Loaded) float64 {
	if l == nil {
		return 0
	}
	return l.LoadTime.Seconds()
}

func (c *Check) harnessFiles() []string {
	if c.Ld == nil {
		return nil
	}
	return c.Ld.Files
}

func repoFingerprint() string {
	h := sha256.New()
	n := 0
	filepath.Walk(repoV3, func(p string, info os.FileInfo, err error) error {
		if err != nil || info.IsDir() || !strings.HasSuffix(p, ".go") || strings.HasSuffix(p, "_test.go") {
			return nil
		}
		b, err := os.ReadFile(p)
		if err == nil {
			h.Write([]byte(p))
			h.Write(b)
			n++
		}
		return nil
	})
	return fmt.Sprintf("%d files sha256:%x", n, h.Sum(nil)[:8])
}

var _ = ssa.Function{}
