package main

import "time"

func init() {
	checks["C19"] = func(c *Check) {
		c.Technique = "symbolic execution of go/ssa + SMT bit-vectors (z3): address bytes and prefix length symbolic; net.IP/net.IPNet methods executed from stdlib source"
		c.Assume("networks are canonical CIDR networks (base address masked, contiguous mask), as net.ParseCIDR and the property's quantifier describe; IPv4 networks for the network laws, IPv4 and IPv6 for the address laws")
		merge := func(cf *Config) {
			cf.Merge["github.com/zmap/zlint/v3/util.IntersectsIANAReserved"] = true
		}
		v4 := []string{"in 10.0.0.0/8", "in 172.16.0.0/12", "in 192.168.0.0/16", "in 127.0.0.0/8", "in 169.254.0.0/16", "in 100.64.0.0/10", "in 192.0.2.0/24", "in 198.51.100.0/24", "in 203.0.113.0/24", "in 198.18.0.0/15", "in 224.0.0.0/4", "in 240.0.0.0/4", "in 0.0.0.0/32", "not reserved"}
		v6 := []string{"in ::1/128", "in fc00::/7", "in fe80::/10", "in ff00::/8", "in 2001:db8::/32", "in 2002::/16", "in 100::/64"}
		c.Add(&Job{Pkg: utilPkg, Func: "VerifC19Public", MustCover: []string{"public"}})
		c.Add(&Job{Pkg: utilPkg, Func: "VerifC19BlocksV4", MustCover: v4})
		c.Add(&Job{Pkg: utilPkg, Func: "VerifC19BlocksV6", MustCover: v6})
		c.Add(&Job{Pkg: utilPkg, Func: "VerifC19Mapped", MustCover: []string{"mapped"}})
		c.Add(&Job{Pkg: utilPkg, Func: "VerifC19HostNet", MustCover: []string{"host network"}})
		c.Add(&Job{Pkg: utilPkg, Func: "VerifC19ContainsV4", MustCover: []string{"contains reserved"}})
		// A4 by its inductive step (one symbolic network and its parent); the direct two-network formulation
		// does not finish within the quick budget (5000+ paths) and is kept for the thorough tier
		c.Add(&Job{Pkg: utilPkg, Func: "VerifC19MonotoneStepV4", MustCover: []string{"parent of intersecting"}, Tune: func(cf *Config) { merge(cf); cf.Deadline = time.Now().Add(12 * time.Minute) }})
		if !c.Quick() {
			c.Add(&Job{Pkg: utilPkg, Func: "VerifC19MonotoneV4", MustCover: []string{"supernet of intersecting"}, Tune: merge})
		}
		// the lints report accordingly: arbitrary certificate, the two util predicates uninterpreted (plumbing);
		// plus a replayable variant with common names from a concrete pool and the real predicates
		c.Assume("lint-level jobs: util.IsIANAReserved / IntersectsIANAReserved and net.ParseIP are uninterpreted functions of their arguments in the symbolic variant (their own laws are the jobs above); lists <= 2")
		ufs := func(cf *Config) {
			cf.UF["github.com/zmap/zlint/v3/util.IsIANAReserved"] = true
			cf.UF["github.com/zmap/zlint/v3/util.IntersectsIANAReserved"] = true
			cf.ListBound = 2
			cf.AutoUF = true
		}
		ufs1 := func(cf *Config) { ufs(cf); cf.ListBound = 1 }
		c.Add(&Job{Label: "lint/e_subject_contains_reserved_ip", Pkg: cabfBRPkg, Func: "VerifC19SubjectIPLint", MustCover: []string{"reserved address in the common name", "no reserved address in the common name"}, Tune: ufs})
		c.Add(&Job{Label: "lint/e_subject_contains_reserved_ip/pool", Pkg: cabfBRPkg, Func: "VerifC19SubjectIPLint", MustCover: []string{"reserved address in the common name", "no reserved address in the common name"},
			Tune: func(cf *Config) { cf.Bounds["param:pool"] = 1; cf.AutoUF = true }})
		c.Add(&Job{Label: "lint/e_ext_san_contains_reserved_ip", Pkg: cabfBRPkg, Func: "VerifC19SANIPLint", MustCover: []string{"reserved SAN address", "no reserved SAN address"}, Tune: ufs})
		c.Add(&Job{Label: "lint/e_ext_nc_intersects_reserved_ip", Pkg: cabfBRPkg, Func: "VerifC19NCLint", MustCover: []string{"intersecting constraint", "no intersecting constraint"}, Tune: ufs1})
	}
}
