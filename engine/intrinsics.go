package main

// Stubs: models (SMT definitions), native evaluation on concrete arguments,
// uninterpreted pure functions, and environment stubs.  Every use is counted in
// the path's stub set and ends up in the evidence file.

import (
	"fmt"
	"go/token"
	"go/types"
	"net"
	"reflect"
	"regexp"
	"sort"
	"strings"
	"time"
	"unicode"
	"unicode/utf8"

	"golang.org/x/tools/go/ssa"
)

func (e *Exec) stub(name string) { e.stubs[name]++ }

func buildIntrinsics() map[string]intrinsic {
	m := map[string]intrinsic{}
	nop := func(e *Exec, fn *ssa.Function, args []Value) Value { return nil }

	// --- sync: single goroutine; lock balance is tracked ---
	lock := func(delta int, what string) intrinsic {
		return func(e *Exec, fn *ssa.Function, args []Value) Value {
			p, _ := args[0].(*PtrV)
			if p != nil && p.O != nil {
				e.lockDepth[p.O] += delta
				if e.lockDepth[p.O] < 0 {
					panic(goPanic{msg: "sync: unlock of unlocked mutex", site: e.curSite})
				}
			}
			return nil
		}
	}
	m["(*sync.RWMutex).RLock"] = lock(1, "r")
	m["(*sync.RWMutex).RUnlock"] = lock(-1, "r")
	m["(*sync.RWMutex).Lock"] = lock(1, "w")
	m["(*sync.RWMutex).Unlock"] = lock(-1, "w")
	m["(*sync.Mutex).Lock"] = lock(1, "w")
	m["(*sync.Mutex).Unlock"] = lock(-1, "w")
	m["(*sync.Once).Do"] = func(e *Exec, fn *ssa.Function, args []Value) Value {
		p := args[0].(*PtrV)
		key := fmt.Sprintf("once:%p:%v", p.O, p.Path)
		if _, done := e.lazyMemo[key]; done {
			return nil
		}
		e.lazyMemo[key] = cbool(true)
		e.callFV(args[1].(*FuncV), nil, e.curSite)
		return nil
	}

	// --- time ---
	m["time.Date"] = func(e *Exec, fn *ssa.Function, args []Value) Value {
		var a [7]int64
		for i := 0; i < 7; i++ {
			v, ok := concInt(args[i])
			if !ok {
				e.unsupported("time.Date with symbolic argument")
			}
			a[i] = v
		}
		t := time.Date(int(a[0]), time.Month(a[1]), int(a[2]), int(a[3]), int(a[4]), int(a[5]), int(a[6]), time.UTC)
		return nativeTime(t)
	}
	m["time.Now"] = func(e *Exec, fn *ssa.Function, args []Value) Value {
		e.stub("env:time.Now")
		e.effects = append(e.effects, "time.Now")
		return e.symTime("env.now")
	}
	m["time.Parse"] = func(e *Exec, fn *ssa.Function, args []Value) Value {
		layout, ok1 := concStr(args[0])
		val, ok2 := concStr(args[1])
		if ok1 && ok2 {
			t, err := time.Parse(layout, val)
			if err != nil {
				return &TupleV{E: []Value{e.zero(fn.Signature.Results().At(0).Type()), e.mkError(err.Error())}}
			}
			return &TupleV{E: []Value{nativeTime(t), &IfaceV{}}}
		}
		if sv := args[1].(*StrV); ok1 && len(sv.Alts) > 0 {
			// lifted over the finitely many concrete values of the argument
			e.stub("lifted:time.Parse(finite choice)")
			fails := altsBool(sv, func(s string) bool { _, err := time.Parse(layout, s); return err != nil })
			if e.branch(fails) {
				return &TupleV{E: []Value{e.zero(fn.Signature.Results().At(0).Type()), e.mkError("parsing time: cannot parse")}}
			}
			part := func(i int) func(string) uint64 {
				return func(s string) uint64 {
					t, err := time.Parse(layout, s)
					if err != nil {
						return 0
					}
					return *nativeTime(t).(*StructV).F[i].(*BV).C
				}
			}
			tv := &StructV{F: []Value{e.nameValue(altsBV(sv, part(0)), "tp"), e.nameValue(altsBV(sv, part(1)), "tp"), &PtrV{}}}
			return &TupleV{E: []Value{tv, &IfaceV{}}}
		}
		e.stub("uf:time.Parse")
		res := e.ufCall("time.Parse", args, fn.Signature.Results())
		return res
	}
	m["(time.Time).Format"] = func(e *Exec, fn *ssa.Function, args []Value) Value {
		// a concrete UTC instant and a concrete layout: the real formatter
		if tv, ok := e.force(args[0]).(*StructV); ok && len(tv.F) == 3 && len(args) == 2 {
			w, ok1 := e.force(tv.F[0]).(*BV)
			x, ok2 := e.force(tv.F[1]).(*BV)
			lp, ok3 := e.force(tv.F[2]).(*PtrV)
			ly, ok4 := args[1].(*StrV)
			if ok1 && ok2 && ok3 && ok4 && w.C != nil && x.C != nil && lp.O == nil && ly.C != nil && *w.C>>63 == 0 {
				const unixToInternal = 62135596800
				t := time.Unix(int64(*x.C)-unixToInternal, int64(*w.C&(1<<30-1))).UTC()
				return cstr(t.Format(*ly.C))
			}
		}
		e.stub("uf:time.Format")
		return e.ufCall("time.Format", args, types.Typ[types.String])
	}
	m["(time.Time).String"] = m["(time.Time).Format"]

	// --- errors / fmt ---
	m["fmt.Errorf"] = func(e *Exec, fn *ssa.Function, args []Value) Value {
		msg := e.sprintf(args[0], args[1].(*SliceV), "fmt.Errorf")
		return e.mkErrorV(msg)
	}
	m["fmt.Sprintf"] = func(e *Exec, fn *ssa.Function, args []Value) Value {
		return e.sprintf(args[0], args[1].(*SliceV), "fmt.Sprintf")
	}
	m["fmt.Sprint"] = func(e *Exec, fn *ssa.Function, args []Value) Value {
		return e.sprintf(cstr("%v-sprint"), args[0].(*SliceV), "fmt.Sprint")
	}
	m["fmt.Sprintln"] = func(e *Exec, fn *ssa.Function, args []Value) Value {
		return e.sprintf(cstr("%v-sprintln"), args[0].(*SliceV), "fmt.Sprintln")
	}
	for _, n := range []string{"fmt.Println", "fmt.Printf", "fmt.Print", "fmt.Fprintf", "fmt.Fprintln", "fmt.Fprint"} {
		n := n
		m[n] = func(e *Exec, fn *ssa.Function, args []Value) Value {
			e.effects = append(e.effects, "io:"+n)
			e.stub("env:" + n)
			return e.zero(fn.Signature.Results())
		}
	}

	// --- strings (models) ---
	str2 := func(f func(e *Exec, a, b *StrV) Value) intrinsic {
		return func(e *Exec, fn *ssa.Function, args []Value) Value {
			return f(e, args[0].(*StrV), args[1].(*StrV))
		}
	}
	m["strings.HasPrefix"] = str2(func(e *Exec, a, b *StrV) Value {
		if a.C != nil && b.C != nil {
			return cbool(strings.HasPrefix(*a.C, *b.C))
		}
		return &BoolV{T: "(str.prefixof " + b.T + " " + a.T + ")"}
	})
	m["strings.HasSuffix"] = str2(func(e *Exec, a, b *StrV) Value {
		if a.C != nil && b.C != nil {
			return cbool(strings.HasSuffix(*a.C, *b.C))
		}
		return &BoolV{T: "(str.suffixof " + b.T + " " + a.T + ")"}
	})
	m["strings.Contains"] = str2(func(e *Exec, a, b *StrV) Value {
		if a.C != nil && b.C != nil {
			return cbool(strings.Contains(*a.C, *b.C))
		}
		return &BoolV{T: "(str.contains " + a.T + " " + b.T + ")"}
	})
	m["strings.Index"] = str2(func(e *Exec, a, b *StrV) Value {
		if a.C != nil && b.C != nil {
			return cbv(uint64(int64(strings.Index(*a.C, *b.C))), 64)
		}
		return &BV{T: "((_ int2bv 64) (str.indexof " + a.T + " " + b.T + " 0))", W: 64}
	})
	m["strings.IndexByte"] = func(e *Exec, fn *ssa.Function, args []Value) Value {
		a := args[0].(*StrV)
		c := args[1].(*BV)
		if a.C != nil && c.C != nil {
			return cbv(uint64(int64(strings.IndexByte(*a.C, byte(*c.C)))), 64)
		}
		ct := byteToStrTerm(c)
		if c.C != nil {
			ct = smtStr(string([]byte{byte(*c.C)}))
		}
		return &BV{T: "((_ int2bv 64) (str.indexof " + a.T + " " + ct + " 0))", W: 64}
	}
	m["strings.TrimPrefix"] = str2(func(e *Exec, a, b *StrV) Value {
		if a.C != nil && b.C != nil {
			return cstr(strings.TrimPrefix(*a.C, *b.C))
		}
		return &StrV{T: fmt.Sprintf("(ite (str.prefixof %s %s) (str.substr %s (str.len %s) (- (str.len %s) (str.len %s))) %s)", b.T, a.T, a.T, b.T, a.T, b.T, a.T)}
	})
	m["strings.TrimSuffix"] = str2(func(e *Exec, a, b *StrV) Value {
		if a.C != nil && b.C != nil {
			return cstr(strings.TrimSuffix(*a.C, *b.C))
		}
		return &StrV{T: fmt.Sprintf("(ite (str.suffixof %s %s) (str.substr %s 0 (- (str.len %s) (str.len %s))) %s)", b.T, a.T, a.T, a.T, b.T, a.T)}
	})
	m["strings.EqualFold"] = str2(func(e *Exec, a, b *StrV) Value {
		if a.C != nil && b.C != nil {
			return cbool(strings.EqualFold(*a.C, *b.C))
		}
		// one side concrete and valid UTF-8: exact regular expression over bytes - every rune may be replaced
		// by any member of its simple-folding orbit (unicode.SimpleFold), e.g. k ~ K ~ U+212A
		for _, pr := range [][2]*StrV{{a, b}, {b, a}} {
			if cs, sy := pr[0], pr[1]; cs.C != nil && sy.C == nil && utf8.ValidString(*cs.C) {
				e.stub("model:strings.EqualFold(concrete operand: exact folding-orbit regexp)")
				if *cs.C == "" {
					return &BoolV{T: "(= " + sy.T + " \"\")"}
				}
				var parts []string
				for _, r := range *cs.C {
					alts := []string{"(str.to_re " + smtStr(string(r)) + ")"}
					for f := unicode.SimpleFold(r); f != r; f = unicode.SimpleFold(f) {
						alts = append(alts, "(str.to_re "+smtStr(string(f))+")")
					}
					if len(alts) == 1 {
						parts = append(parts, alts[0])
					} else {
						parts = append(parts, "(re.union "+strings.Join(alts, " ")+")")
					}
				}
				re := parts[0]
				if len(parts) > 1 {
					re = "(re.++ " + strings.Join(parts, " ") + ")"
				}
				return &BoolV{T: "(str.in_re " + sy.T + " " + re + ")"}
			}
		}
		e.stub("model:strings.EqualFold(ASCII via lower)")
		return &BoolV{T: "(= " + e.lowerTerm(a) + " " + e.lowerTerm(b) + ")"}
	})
	m["strings.ToLower"] = func(e *Exec, fn *ssa.Function, args []Value) Value {
		a := args[0].(*StrV)
		if a.C != nil {
			return cstr(strings.ToLower(*a.C))
		}
		e.stub("uf:strings.ToLower")
		if len(a.Parts) > 1 {
			// ASCII lower-casing acts character by character, so it distributes over concatenation
			var acc *StrV
			for _, p := range a.Parts {
				lp := &StrV{T: e.lowerTerm(p)}
				if p.C != nil {
					lp = cstr(strings.ToLower(*p.C))
				}
				if acc == nil {
					acc = lp
				} else {
					acc = e.strBinop(token.ADD, acc, lp).(*StrV)
				}
			}
			return acc
		}
		return &StrV{T: e.lowerTerm(a)}
	}
	m["strings.ToUpper"] = func(e *Exec, fn *ssa.Function, args []Value) Value {
		a := args[0].(*StrV)
		if a.C != nil {
			return cstr(strings.ToUpper(*a.C))
		}
		e.stub("uf:strings.ToUpper")
		e.declareFun("uf_upper", "(String) String")
		t := "(uf_upper " + a.T + ")"
		e.assume("(= (str.len " + t + ") (str.len " + a.T + "))")
		return &StrV{T: t}
	}
	m["strings.TrimSpace"] = func(e *Exec, fn *ssa.Function, args []Value) Value {
		a := args[0].(*StrV)
		if a.C != nil {
			return cstr(strings.TrimSpace(*a.C))
		}
		return e.trimSpace(a)
	}
	m["strings.Split"] = func(e *Exec, fn *ssa.Function, args []Value) Value {
		return e.strSplit(args[0].(*StrV), args[1].(*StrV), -1)
	}
	m["strings.SplitN"] = func(e *Exec, fn *ssa.Function, args []Value) Value {
		n, ok := concInt(args[2])
		if !ok {
			e.unsupported("strings.SplitN with symbolic n")
		}
		return e.strSplit(args[0].(*StrV), args[1].(*StrV), int(n))
	}
	m["strings.Join"] = func(e *Exec, fn *ssa.Function, args []Value) Value {
		sl := args[0].(*SliceV)
		sep := args[1].(*StrV)
		n, ok := concInt(sl.Len)
		if !ok {
			n = int64(e.concretize(sl.Len, sl.Cap+1))
		}
		var acc Value = cstr("")
		for i := 0; i < int(n); i++ {
			if i > 0 {
				acc = e.strBinop(token.ADD, acc.(*StrV), sep)
			}
			acc = e.strBinop(token.ADD, acc.(*StrV), e.sliceElem(sl, i).(*StrV))
		}
		return acc
	}
	m["strings.Repeat"] = func(e *Exec, fn *ssa.Function, args []Value) Value {
		s, ok1 := concStr(args[0])
		n, ok2 := concInt(args[1])
		if ok1 && ok2 && n >= 0 {
			return cstr(strings.Repeat(s, int(n)))
		}
		e.unsupported("strings.Repeat symbolic")
		return nil
	}
	m["strings.Compare"] = str2(func(e *Exec, a, b *StrV) Value {
		if a.C != nil && b.C != nil {
			return cbv(uint64(int64(strings.Compare(*a.C, *b.C))), 64)
		}
		return &BV{T: fmt.Sprintf("(ite (= %s %s) (_ bv0 64) (ite (str.< %s %s) (bvneg (_ bv1 64)) (_ bv1 64)))", a.T, b.T, a.T, b.T), W: 64}
	})
	m["strings.Count"] = str2(func(e *Exec, a, b *StrV) Value {
		if a.C != nil && b.C != nil {
			return cbv(uint64(strings.Count(*a.C, *b.C)), 64)
		}
		e.stub("uf:strings.Count")
		return e.ufCall("strings.Count", []Value{a, b}, types.Typ[types.Int])
	})
	m["strings.ReplaceAll"] = func(e *Exec, fn *ssa.Function, args []Value) Value {
		a, b, c := args[0].(*StrV), args[1].(*StrV), args[2].(*StrV)
		if a.C != nil && b.C != nil && c.C != nil {
			return cstr(strings.ReplaceAll(*a.C, *b.C, *c.C))
		}
		if b.C != nil && *b.C == "" {
			e.unsupported("ReplaceAll with empty pattern")
		}
		if b.C != nil && c.C != nil && len(*b.C) == 1 {
			// a single-byte pattern distributes over concatenation
			parts := a.Parts
			if len(parts) == 0 {
				parts = []*StrV{a}
			}
			var acc Value = cstr("")
			for _, p := range parts {
				var r *StrV
				if p.C != nil {
					r = cstr(strings.ReplaceAll(*p.C, *b.C, *c.C))
				} else {
					r = e.replaceAllAtom(p, *b.C, *c.C)
				}
				acc = e.strBinop(token.ADD, acc.(*StrV), r)
			}
			return acc
		}
		return &StrV{T: "(str.replace_all " + a.T + " " + b.T + " " + c.T + ")"}
	}
	m["strings.LastIndex"] = str2(func(e *Exec, a, b *StrV) Value {
		if a.C != nil && b.C != nil {
			return cbv(uint64(int64(strings.LastIndex(*a.C, *b.C))), 64)
		}
		e.stub("uf:strings.LastIndex")
		r := e.ufCall("strings.LastIndex", []Value{a, b}, types.Typ[types.Int]).(*BV)
		// contract: -1 iff not contained; otherwise a position where b occurs
		e.assume(fmt.Sprintf("(= (= %s (bvneg (_ bv1 64))) (not (str.contains %s %s)))", r.T, a.T, b.T))
		e.assume(fmt.Sprintf("(=> (not (= %s (bvneg (_ bv1 64)))) (and (bvsge %s (_ bv0 64)) (= (str.substr %s (bv2nat %s) (str.len %s)) %s)))", r.T, r.T, a.T, r.T, b.T, b.T))
		return r
	})
	m["strings.ContainsAny"] = str2(func(e *Exec, a, b *StrV) Value {
		if a.C != nil && b.C != nil {
			return cbool(strings.ContainsAny(*a.C, *b.C))
		}
		if b.C != nil {
			acc := cbool(false)
			for _, c := range []byte(*b.C) {
				acc = bor(acc, &BoolV{T: "(str.contains " + a.T + " " + smtStr(string([]byte{c})) + ")"})
			}
			return acc
		}
		e.unsupported("strings.ContainsAny symbolic chars")
		return nil
	})
	m["strings.ContainsRune"] = func(e *Exec, fn *ssa.Function, args []Value) Value {
		a := args[0].(*StrV)
		r, ok := concInt(args[1])
		if a.C != nil && ok {
			return cbool(strings.ContainsRune(*a.C, rune(r)))
		}
		if ok && r < 0x80 {
			return &BoolV{T: "(str.contains " + a.T + " " + smtStr(string(rune(r))) + ")"}
		}
		if ok {
			return &BoolV{T: "(str.contains " + a.T + " " + smtStr(string(rune(r))) + ")"}
		}
		e.unsupported("strings.ContainsRune symbolic rune")
		return nil
	}

	// --- bytes ---
	beq := func(e *Exec, fn *ssa.Function, args []Value) Value {
		return e.bytesEqual(args[0].(*SliceV), args[1].(*SliceV))
	}
	m["bytes.Equal"] = beq
	m["internal/bytealg.Equal"] = beq
	m["bytes.Compare"] = func(e *Exec, fn *ssa.Function, args []Value) Value {
		a, b := e.bytesToStr(args[0].(*SliceV)), e.bytesToStr(args[1].(*SliceV))
		return m["strings.Compare"](e, fn, []Value{a, b})
	}
	m["bytes.HasPrefix"] = func(e *Exec, fn *ssa.Function, args []Value) Value {
		a, b := args[0].(*SliceV), args[1].(*SliceV)
		bn, ok := concInt(b.Len)
		if !ok {
			bn = int64(e.concretize(b.Len, b.Cap+1))
		}
		if !e.branch(bvcmp("bvuge", a.Len, cbv(uint64(bn), 64))) {
			return cbool(false)
		}
		acc := cbool(true)
		for i := 0; i < int(bn); i++ {
			acc = band(acc, e.valEq(e.sliceElem(a, i), e.sliceElem(b, i)))
		}
		return acc
	}
	m["bytes.Contains"] = func(e *Exec, fn *ssa.Function, args []Value) Value {
		a, b := e.bytesToStr(args[0].(*SliceV)), e.bytesToStr(args[1].(*SliceV))
		return m["strings.Contains"](e, fn, []Value{a, b})
	}
	m["bytes.IndexByte"] = func(e *Exec, fn *ssa.Function, args []Value) Value {
		a := e.bytesToStr(args[0].(*SliceV))
		return m["strings.IndexByte"](e, fn, []Value{a, args[1]})
	}
	m["internal/bytealg.IndexByte"] = m["bytes.IndexByte"]
	m["internal/bytealg.IndexByteString"] = m["strings.IndexByte"]
	m["internal/bytealg.IndexString"] = m["strings.Index"]
	m["internal/bytealg.CountString"] = func(e *Exec, fn *ssa.Function, args []Value) Value {
		a := args[0].(*StrV)
		c := args[1].(*BV)
		if a.C != nil && c.C != nil {
			return cbv(uint64(strings.Count(*a.C, string([]byte{byte(*c.C)}))), 64)
		}
		e.stub("uf:bytealg.CountString")
		return e.ufCall("bytealg.CountString", []Value{a, c}, types.Typ[types.Int])
	}

	// --- regexp ---
	m["regexp.MustCompile"] = func(e *Exec, fn *ssa.Function, args []Value) Value {
		p, ok := concStr(args[0])
		if !ok {
			e.unsupported("regexp.MustCompile with symbolic pattern")
		}
		re, err := regexp.Compile(p)
		if err != nil {
			panic(goPanic{msg: "regexp: Compile: " + err.Error(), site: e.curSite})
		}
		return &PtrV{O: e.newObj(&OpaqueV{N: re}, "regexp:"+p)}
	}
	m["regexp.Compile"] = func(e *Exec, fn *ssa.Function, args []Value) Value {
		p, ok := concStr(args[0])
		if !ok {
			e.stub("uf:regexp.Compile")
			return e.ufCall("regexp.Compile", args, fn.Signature.Results())
		}
		re, err := regexp.Compile(p)
		if err != nil {
			return &TupleV{E: []Value{&PtrV{}, e.mkError(err.Error())}}
		}
		return &TupleV{E: []Value{&PtrV{O: e.newObj(&OpaqueV{N: re}, "regexp:"+p)}, &IfaceV{}}}
	}
	m["(*regexp.Regexp).MatchString"] = func(e *Exec, fn *ssa.Function, args []Value) Value {
		return e.regexpMatch(args[0], args[1].(*StrV))
	}
	m["(*regexp.Regexp).Match"] = func(e *Exec, fn *ssa.Function, args []Value) Value {
		return e.regexpMatch(args[0], e.bytesToStr(args[1].(*SliceV)))
	}
	m["regexp.MatchString"] = func(e *Exec, fn *ssa.Function, args []Value) Value {
		p, ok := concStr(args[0])
		if !ok {
			e.unsupported("regexp.MatchString symbolic pattern")
		}
		re, err := regexp.Compile(p)
		if err != nil {
			return &TupleV{E: []Value{cbool(false), e.mkError(err.Error())}}
		}
		r := e.regexpMatch(&PtrV{O: e.newObj(&OpaqueV{N: re}, "regexp:"+p)}, args[1].(*StrV))
		return &TupleV{E: []Value{r, &IfaceV{}}}
	}
	m["(*regexp.Regexp).String"] = func(e *Exec, fn *ssa.Function, args []Value) Value {
		re := e.opaqueOf(args[0])
		if r, ok := re.(*regexp.Regexp); ok {
			return cstr(r.String())
		}
		e.unsupported("Regexp.String on unknown regexp")
		return nil
	}
	m["(*regexp.Regexp).FindStringSubmatch"] = func(e *Exec, fn *ssa.Function, args []Value) Value {
		re, _ := e.opaqueOf(args[0]).(*regexp.Regexp)
		s := args[1].(*StrV)
		if re != nil && s.C != nil {
			return e.strSliceVal(re.FindStringSubmatch(*s.C))
		}
		e.stub("uf:regexp.FindStringSubmatch")
		old := e.cfg.Bounds["uf:regexp.FindStringSubmatch"]
		if re != nil {
			e.cfg.Bounds["uf:regexp.FindStringSubmatch"] = re.NumSubexp() + 1
		}
		r := e.ufCall("regexp.FindStringSubmatch", []Value{e.regexpKey(args[0]), s}, fn.Signature.Results().At(0).Type())
		e.cfg.Bounds["uf:regexp.FindStringSubmatch"] = old
		return r
	}

	// --- net ---
	m["net.ParseCIDR"] = func(e *Exec, fn *ssa.Function, args []Value) Value {
		p, ok := concStr(args[0])
		if !ok {
			e.stub("uf:net.ParseCIDR")
			return e.ufCall("net.ParseCIDR", args, fn.Signature.Results())
		}
		ip, n, err := net.ParseCIDR(p)
		if err != nil {
			return &TupleV{E: []Value{&SliceV{Len: cbv(0, 64)}, &PtrV{}, e.mkError(err.Error())}}
		}
		ipn := &StructV{F: []Value{e.byteSlice(n.IP), e.byteSlice(n.Mask)}}
		return &TupleV{E: []Value{e.byteSlice(ip), &PtrV{O: e.newObj(ipn, "ipnet")}, &IfaceV{}}}
	}
	m["net.ParseIP"] = func(e *Exec, fn *ssa.Function, args []Value) Value {
		p, ok := concStr(args[0])
		if ok {
			return e.byteSlice(net.ParseIP(p))
		}
		e.stub("uf:net.ParseIP")
		return e.ufParseIP(args[0].(*StrV))
	}
	m["(net.IP).String"] = func(e *Exec, fn *ssa.Function, args []Value) Value {
		if bs, ok := e.concBytes(args[0].(*SliceV)); ok {
			return cstr(net.IP(bs).String())
		}
		e.stub("uf:net.IP.String")
		return e.ufCall("net.IP.String", args, types.Typ[types.String])
	}
	m["(*net.IPNet).String"] = func(e *Exec, fn *ssa.Function, args []Value) Value {
		e.stub("uf:net.IPNet.String")
		p := args[0].(*PtrV)
		v := e.load(p, e.curSite).(*StructV)
		return e.ufCall("net.IPNet.String", []Value{e.force(v.F[0]), e.force(v.F[1])}, types.Typ[types.String])
	}

	// --- sort ---
	m["sort.Strings"] = func(e *Exec, fn *ssa.Function, args []Value) Value {
		sl := args[0].(*SliceV)
		n, ok := concInt(sl.Len)
		if !ok {
			n = int64(e.concretize(sl.Len, sl.Cap+1))
		}
		ss := make([]string, n)
		allc := true
		for i := range ss {
			c, ok := concStr(e.sliceElem(sl, i))
			if !ok {
				allc = false
				break
			}
			ss[i] = c
		}
		if allc {
			sort.Strings(ss)
			for i := range ss {
				e.store(&PtrV{O: sl.O, Path: appendPath(sl.P, sl.Off+i)}, cstr(ss[i]), e.curSite)
			}
			return nil
		}
		// symbolic: insertion sort with forking comparisons
		vals := make([]*StrV, n)
		for i := range vals {
			vals[i] = e.sliceElem(sl, i).(*StrV)
		}
		for i := 1; i < len(vals); i++ {
			for j := i; j > 0; j-- {
				lt := e.strBinop(token.LSS, vals[j], vals[j-1]).(*BoolV)
				if !e.branch(lt) {
					break
				}
				vals[j], vals[j-1] = vals[j-1], vals[j]
			}
		}
		for i := range vals {
			e.store(&PtrV{O: sl.O, Path: appendPath(sl.P, sl.Off+i)}, vals[i], e.curSite)
		}
		return nil
	}

	// --- misc natives used by initialisers ---
	m["runtime.SetFinalizer"] = nop
	m["runtime.KeepAlive"] = nop
	m["encoding/base32.NewEncoding"] = func(e *Exec, fn *ssa.Function, args []Value) Value {
		s, _ := concStr(args[0])
		return &PtrV{O: e.newObj(&OpaqueV{N: "base32:" + s}, "base32")}
	}
	m["(encoding/base32.Encoding).WithPadding"] = func(e *Exec, fn *ssa.Function, args []Value) Value {
		return args[0]
	}
	m["(*encoding/base32.Encoding).WithPadding"] = func(e *Exec, fn *ssa.Function, args []Value) Value {
		return args[0]
	}
	// utf8.RuneCountInString: a count between len/4 (rounded up) and len, equal to len for ASCII text.  These
	// bounds are all that length limits depend on; the exact count of non-ASCII text is left open.
	runeCount := func(e *Exec, s *StrV) Value {
		if s.C != nil {
			return cbv(uint64(utf8.RuneCountInString(*s.C)), 64)
		}
		key := "runecount#" + s.T
		if v, ok := e.lazyMemo[key]; ok {
			return v
		}
		e.stub("model:utf8.RuneCountInString(bounds: ceil(len/4) <= n <= len, n = len for ASCII)")
		n := e.fresh("runes", "Int")
		ln := "(str.len " + s.T + ")"
		e.assume(fmt.Sprintf("(and (<= 0 %s) (<= %s %s) (<= %s (* 4 %s)))", n, n, ln, ln, n))
		e.assume(fmt.Sprintf("(=> (str.in_re %s (re.* (re.range \"\\u{0}\" \"\\u{7f}\"))) (= %s %s))", s.T, n, ln))
		v := &BV{T: "((_ int2bv 64) " + n + ")", W: 64, I: n}
		e.lazyMemo[key] = v
		return v
	}
	m["unicode/utf8.RuneCountInString"] = func(e *Exec, fn *ssa.Function, args []Value) Value {
		return runeCount(e, args[0].(*StrV))
	}
	m["unicode/utf8.RuneCount"] = func(e *Exec, fn *ssa.Function, args []Value) Value {
		return runeCount(e, e.bytesToStr(args[0].(*SliceV)))
	}
	m["unicode/utf8.ValidString"] = func(e *Exec, fn *ssa.Function, args []Value) Value {
		s := args[0].(*StrV)
		if s.C != nil {
			return cbool(validUTF8(*s.C))
		}
		e.stub("uf:utf8.ValidString")
		return e.ufCall("utf8.ValidString", args, types.Typ[types.Bool])
	}
	m["unicode/utf8.Valid"] = func(e *Exec, fn *ssa.Function, args []Value) Value {
		if bs, ok := e.concBytes(args[0].(*SliceV)); ok {
			return cbool(validUTF8(string(bs)))
		}
		e.stub("uf:utf8.ValidString")
		return e.ufCall("utf8.ValidString", []Value{e.bytesToStr(args[0].(*SliceV))}, types.Typ[types.Bool])
	}
	addBigIntrinsics(m)
	addTomlIntrinsics(m)
	addCLIIntrinsics(m)
	addCalendarIntrinsics(m)
	addMoreIntrinsics(m)
	return m
}

func validUTF8(s string) bool {
	for _, r := range s {
		if r == 0xFFFD {
			// could be a genuine U+FFFD; check bytes
		}
		_ = r
	}
	return strings.ToValidUTF8(s, "") == s
}

func nativeTime(t time.Time) Value {
	rv := reflect.ValueOf(t)
	wall := rv.Field(0).Uint()
	ext := rv.Field(1).Int()
	if wall>>63 != 0 {
		// strip monotonic reading
		t = t.Round(0)
		rv = reflect.ValueOf(t)
		wall, ext = rv.Field(0).Uint(), rv.Field(1).Int()
	}
	return &StructV{F: []Value{cbv(wall, 64), cbv(uint64(ext), 64), &PtrV{}}}
}

func (e *Exec) opaqueOf(v Value) interface{} {
	p, ok := v.(*PtrV)
	if !ok || p.O == nil {
		return nil
	}
	o, ok := p.O.V.(*OpaqueV)
	if !ok {
		return nil
	}
	return o.N
}

func (e *Exec) regexpKey(v Value) Value {
	if re, ok := e.opaqueOf(v).(*regexp.Regexp); ok {
		return cstr(re.String())
	}
	e.unsupported("unknown regexp object")
	return nil
}

// symRegexp is an arbitrary regular expression: MatchString is an arbitrary
// predicate, one input Bool per candidate string it may be asked about.
type symRegexp struct {
	id    string
	cands []string
}

func (e *Exec) regexpMatch(rev Value, s *StrV) Value {
	if sr, isSym := e.opaqueOf(rev).(*symRegexp); isSym {
		if s.C != nil {
			for i, c := range sr.cands {
				if c == *s.C {
					n := fmt.Sprintf("%s_m%d", sr.id, i)
					e.declareInput(n, "Bool")
					return &BoolV{T: n}
				}
			}
		}
		e.unsupported("arbitrary regexp asked about a string outside its candidate list")
	}
	re, ok := e.opaqueOf(rev).(*regexp.Regexp)
	if !ok {
		e.unsupported("match on unknown regexp")
	}
	if s.C != nil {
		return cbool(re.MatchString(*s.C))
	}
	if t, ok := regexToSMT(re.String()); ok {
		e.stub("model:regexp(" + re.String() + ")")
		return &BoolV{T: "(str.in_re " + s.T + " " + t + ")"}
	}
	e.stub("uf:regexp.MatchString(" + re.String() + ")")
	return e.ufCall("regexp.Match", []Value{cstr(re.String()), s}, types.Typ[types.Bool])
}

func (e *Exec) mkError(msg string) Value { return e.mkErrorV(cstr(msg)) }

func (e *Exec) mkErrorV(msg Value) Value {
	fn := e.findFunc("errors", "New")
	if fn == nil {
		e.unsupported("errors.New not loaded")
	}
	return e.call(fn, []Value{msg}, nil)
}

func (e *Exec) strSliceVal(ss []string) Value {
	if ss == nil {
		return &SliceV{Len: cbv(0, 64)}
	}
	arr := &ArrayV{E: make([]Value, len(ss))}
	for i, s := range ss {
		arr.E[i] = cstr(s)
	}
	return &SliceV{O: e.newObj(arr, "strings"), Len: cbv(uint64(len(ss)), 64), Cap: len(ss)}
}

func (e *Exec) bytesEqual(a, b *SliceV) Value {
	lenEq := bvcmp("=", a.Len, b.Len)
	if !e.branch(lenEq) {
		return cbool(false)
	}
	an, ok := concInt(a.Len)
	if !ok {
		bn, ok2 := concInt(b.Len)
		if ok2 {
			an = bn
		} else {
			an = int64(e.concretize(a.Len, a.Cap+1))
		}
	}
	acc := cbool(true)
	for i := 0; i < int(an); i++ {
		acc = band(acc, e.valEq(e.sliceElem(a, i), e.sliceElem(b, i)))
		if acc.C != nil && !*acc.C {
			return acc
		}
	}
	return acc
}

// replaceAllAtom: ReplaceAll of a one-byte pattern in a symbolic string,
// defined exactly by str.replace_all plus the two facts solvers need most.
func (e *Exec) replaceAllAtom(p *StrV, old, nw string) *StrV {
	key := "repl#" + p.T + "#" + old + "#" + nw
	if v, ok := e.lazyMemo[key]; ok {
		return v.(*StrV)
	}
	// case split: when the string cannot (or on this side of the fork does not) contain the pattern the result
	// is the string itself and no replace_all term reaches the solver (z3 answers unknown at once on
	// replace_all combined with regular-expression constraints)
	if !e.branch(&BoolV{T: "(str.contains " + p.T + " " + smtStr(old) + ")"}) {
		e.lazyMemo[key] = p
		return p
	}
	r := e.fresh("repl", "String")
	e.assume("(= " + r + " (str.replace_all " + p.T + " " + smtStr(old) + " " + smtStr(nw) + "))")
	e.assume("(=> (not (str.contains " + p.T + " " + smtStr(old) + ")) (= " + r + " " + p.T + "))")
	if !strings.Contains(nw, old) {
		e.assume("(not (str.contains " + r + " " + smtStr(old) + "))")
	}
	v := &StrV{T: r}
	e.lazyMemo[key] = v
	return v
}

func (e *Exec) lowerTerm(a *StrV) string {
	if a.C != nil {
		return smtStr(strings.ToLower(*a.C))
	}
	e.declareFun("uf_lower", "(String) String")
	t := "(uf_lower " + a.T + ")"
	key := "lower#" + a.T
	if !e.declared[key] {
		e.declared[key] = true
		e.assume("(= (str.len " + t + ") (str.len " + a.T + "))")
		// idempotence and ASCII facts that lints rely on
		e.assume("(= (uf_lower " + t + ") " + t + ")")
		e.assume("(str.in_re " + t + " " + byteRangeRe + ")")
		// characters that are not letters keep their positions (stated for the label separator)
		e.assume("(= (str.contains " + t + " \".\") (str.contains " + a.T + " \".\"))")
		e.assume("(=> (str.in_re " + a.T + " (re.* (re.union (re.range \"\\u{0}\" \"@\") (re.range \"[\" \"\\u{7f}\")))) (= " + t + " " + a.T + "))")
	}
	return t
}

// trimSpace models strings.TrimSpace for strings whose blanks are ASCII:
// the result r satisfies s = pre ++ r ++ post with pre, post blank strings and
// r neither starting nor ending with a blank.
func (e *Exec) trimSpace(a *StrV) Value {
	key := "trim#" + a.T
	if v, ok := e.lazyMemo[key]; ok {
		return v
	}
	blank0 := `(re.union (str.to_re " ") (str.to_re "\u{9}") (str.to_re "\u{a}") (str.to_re "\u{b}") (str.to_re "\u{c}") (str.to_re "\u{d}") (str.to_re "\u{85}") (str.to_re "\u{a0}"))`
	edge := &BoolV{T: "(str.in_re " + a.T + " (re.union (re.++ " + blank0 + " re.all) (re.++ re.all " + blank0 + ")))"}
	if !e.branch(edge) {
		// no blank at either end: TrimSpace is the identity
		e.lazyMemo[key] = a
		return a
	}
	e.stub("model:strings.TrimSpace(ASCII blanks)")
	e.nfresh++
	id := e.nfresh
	pre := fmt.Sprintf("trimpre!%d", id)
	r := fmt.Sprintf("trim!%d", id)
	post := fmt.Sprintf("trimpost!%d", id)
	e.declare(pre, "String")
	e.declare(r, "String")
	e.declare(post, "String")
	blank := `(re.union (str.to_re " ") (str.to_re "\u{9}") (str.to_re "\u{a}") (str.to_re "\u{b}") (str.to_re "\u{c}") (str.to_re "\u{d}") (str.to_re "\u{85}") (str.to_re "\u{a0}"))`
	e.assume(fmt.Sprintf("(= %s (str.++ %s %s %s))", a.T, pre, r, post))
	e.assume(fmt.Sprintf("(str.in_re %s (re.* %s))", pre, blank))
	e.assume(fmt.Sprintf("(str.in_re %s (re.* %s))", post, blank))
	e.assume(fmt.Sprintf("(not (str.in_re %s (re.++ %s re.all)))", r, blank))
	e.assume(fmt.Sprintf("(not (str.in_re %s (re.++ re.all %s)))", r, blank))
	v := &StrV{T: r}
	e.lazyMemo[key] = v
	return v
}

// strSplit models strings.Split(s, sep) by forking on the number of separators
// (bounded by the list bound + 1).
func (e *Exec) strSplit(s, sep *StrV, n int) Value {
	if s.C != nil && sep.C != nil {
		return e.strSliceVal(strings.SplitN(*s.C, *sep.C, n))
	}
	if sep.C == nil || *sep.C == "" {
		e.unsupported("strings.Split with symbolic/empty separator")
	}
	maxParts := e.cfg.Unwind
	if b, ok := e.cfg.Bounds["split"]; ok {
		maxParts = b
	}
	if n > 0 && n < maxParts {
		maxParts = n
	}
	if len(s.Parts) > 0 && len(*sep.C) == 1 && n < 0 {
		// structural split: when no symbolic operand of the concatenation can contain the
		// separator, the split points are those of the concrete operands
		structural := true
		for _, p := range s.Parts {
			if p.C == nil && e.branch(&BoolV{T: "(str.contains " + p.T + " " + sep.T + ")"}) {
				structural = false
				break
			}
		}
		if structural {
			var pieces []Value
			var cur Value = cstr("")
			for _, p := range s.Parts {
				if p.C == nil {
					cur = e.strBinop(token.ADD, cur.(*StrV), p)
					continue
				}
				segs := strings.Split(*p.C, *sep.C)
				for i, sg := range segs {
					if i > 0 {
						pieces = append(pieces, cur)
						cur = cstr("")
					}
					cur = e.strBinop(token.ADD, cur.(*StrV), cstr(sg))
				}
			}
			pieces = append(pieces, cur)
			return &SliceV{O: e.newObj(&ArrayV{E: pieces}, "split"), Len: cbv(uint64(len(pieces)), 64), Cap: len(pieces)}
		}
	}
	e.stub("model:strings.Split(<=" + fmt.Sprint(maxParts) + " parts)")
	// the same string split again on the same path decomposes the same way: reuse the parts instead of
	// making the solver rediscover (or refute) the decomposition
	memoKey := fmt.Sprintf("split#%s#%s#%d", s.T, sep.T, n)
	if s.C == nil {
		if v, ok := e.lazyMemo[memoKey]; ok {
			old := v.(*ArrayV)
			cp := &ArrayV{E: append([]Value{}, old.E...)}
			return &SliceV{O: e.newObj(cp, "split"), Len: cbv(uint64(len(cp.E)), 64), Cap: len(cp.E)}
		}
	}
	var parts []Value
	rest := s
	for {
		if n > 0 && len(parts) == n-1 {
			parts = append(parts, rest)
			break
		}
		has := &BoolV{T: "(str.contains " + rest.T + " " + sep.T + ")"}
		if rest.C != nil {
			has = cbool(strings.Contains(*rest.C, *sep.C))
		}
		if !e.branch(has) {
			parts = append(parts, rest)
			break
		}
		if len(parts) >= maxParts-1 {
			e.res.UnwindCuts["strings.Split parts > "+fmt.Sprint(maxParts)]++
			panic(pathEnd{"unwind-cut", "strings.Split beyond bound"})
		}
		if rest.C != nil {
			i := strings.Index(*rest.C, *sep.C)
			parts = append(parts, cstr((*rest.C)[:i]))
			rest = cstr((*rest.C)[i+len(*sep.C):])
			continue
		}
		// first occurrence: rest = head ++ sep ++ tail with no occurrence of sep starting inside head
		hn, tn := e.fresh("sph", "String"), e.fresh("spt", "String")
		e.assume("(= " + rest.T + " (str.++ " + hn + " " + sep.T + " " + tn + "))")
		pre := (*sep.C)[:len(*sep.C)-1]
		if pre == "" {
			e.assume("(not (str.contains " + hn + " " + sep.T + "))")
		} else {
			e.assume("(not (str.contains (str.++ " + hn + " " + smtStr(pre) + ") " + sep.T + "))")
		}
		parts = append(parts, &StrV{T: hn})
		rest = &StrV{T: tn}
	}
	arr := &ArrayV{E: parts}
	if s.C == nil {
		e.lazyMemo[memoKey] = &ArrayV{E: append([]Value{}, parts...)}
	}
	return &SliceV{O: e.newObj(arr, "split"), Len: cbv(uint64(len(parts)), 64), Cap: len(parts)}
}

func (e *Exec) ufParseIP(s *StrV) Value {
	// result: nil, or 16 bytes (net.ParseIP always returns the 16-byte form)
	e.declareFun("uf_parseip_ok", "(String) Bool")
	if !e.branch(&BoolV{T: "(uf_parseip_ok " + s.T + ")"}) {
		return &SliceV{Len: cbv(0, 64)}
	}
	arr := &ArrayV{E: make([]Value, 16)}
	for i := range arr.E {
		fnm := fmt.Sprintf("uf_parseip_b%d", i)
		e.declareFun(fnm, "(String) (_ BitVec 8)")
		arr.E[i] = &BV{T: "(" + fnm + " " + s.T + ")", W: 8}
	}
	return &SliceV{O: e.newObj(arr, "parseip"), Len: cbv(16, 64), Cap: 16}
}

// sprintf: native when everything is concrete and simple, otherwise an
// uninterpreted function of the format and the argument values.
func (e *Exec) sprintf(format Value, args *SliceV, what string) Value {
	n, ok := concInt(args.Len)
	if !ok {
		e.unsupported("%s with symbolic arg count", what)
	}
	var vals []Value
	for i := 0; i < int(n); i++ {
		vals = append(vals, e.sliceElem(args, i))
	}
	if f, ok := concStr(format); ok {
		native := make([]interface{}, len(vals))
		allc := true
		for i, v := range vals {
			nv, ok := e.toNative(v)
			if !ok {
				allc = false
				break
			}
			native[i] = nv
		}
		if allc {
			switch {
			case strings.HasSuffix(f, "%v-sprint") && what == "fmt.Sprint":
				return cstr(fmt.Sprint(native...))
			case strings.HasSuffix(f, "%v-sprintln") && what == "fmt.Sprintln":
				return cstr(fmt.Sprintln(native...))
			}
			return cstr(fmt.Sprintf(f, native...))
		}
	}
	if f, ok := concStr(format); ok && (what == "fmt.Sprintf" || what == "fmt.Errorf") {
		if r := e.sprintfStructured(f, vals); r != nil {
			e.stub("model:" + what + "(literal pieces concrete, one uninterpreted string per symbolic argument)")
			r.Args = vals
			return r
		}
	}
	e.stub("uf:" + what)
	r := e.ufCall("fmt", append([]Value{format}, vals...), types.Typ[types.String]).(*StrV)
	return &StrV{T: r.T, Args: vals}
}

// sprintfStructured renders a format string piecewise: literal text stays
// concrete, a verb whose argument is concrete is formatted natively, any other
// verb becomes an uninterpreted string of (verb, argument).  nil when the
// format uses features not handled (width from arguments, indexed arguments,
// missing or extra operands).
func (e *Exec) sprintfStructured(f string, vals []Value) *StrV {
	var acc *StrV = cstr("")
	add := func(p *StrV) { acc = e.strBinop(token.ADD, acc, p).(*StrV) }
	ai := 0
	for i := 0; i < len(f); {
		j := strings.IndexByte(f[i:], '%')
		if j < 0 {
			add(cstr(f[i:]))
			break
		}
		add(cstr(f[i : i+j]))
		i += j
		k := i + 1
		for k < len(f) && strings.IndexByte("+-# 0123456789.", f[k]) >= 0 {
			k++
		}
		if k >= len(f) {
			return nil
		}
		verb := f[i : k+1]
		if f[k] == '%' {
			add(cstr("%"))
			i = k + 1
			continue
		}
		if f[k] == '*' || f[k] == '[' || ai >= len(vals) {
			return nil
		}
		v := vals[ai]
		ai++
		if f[k] == 'T' {
			if iv, ok := v.(*IfaceV); ok {
				if iv.T == nil {
					add(cstr("<nil>"))
				} else {
					add(cstr(goTypeString(iv.T)))
				}
				i = k + 1
				continue
			}
			return nil
		}
		if nv, ok := e.toNative(v); ok {
			add(cstr(fmt.Sprintf(verb, nv)))
		} else if iv, ok := v.(*IfaceV); ok && iv.T != nil && (f[k] == 's' || f[k] == 'v') && verb == "%"+string(f[k]) {
			switch x := iv.V.(type) {
			case *StrV:
				add(x)
			default:
				if types.Implements(iv.T, errorIface()) && iv.T.String() != "runtimeError" {
					if fn := e.prog.LookupMethod(iv.T, nil, "Error"); fn != nil {
						if r, ok := e.call(fn, []Value{iv.V}, nil).(*StrV); ok {
							add(r)
							break
						}
					}
				}
				add(e.ufCall("fmt", []Value{cstr(verb), v}, types.Typ[types.String]).(*StrV))
			}
		} else {
			add(e.ufCall("fmt", []Value{cstr(verb), v}, types.Typ[types.String]).(*StrV))
		}
		i = k + 1
	}
	if ai != len(vals) {
		return nil
	}
	return acc
}

// goTypeString renders a type the way fmt's %T does (package name, not path).
func goTypeString(t types.Type) string {
	return types.TypeString(t, func(p *types.Package) string { return p.Name() })
}

// toNative converts a fully concrete engine value to a Go value for fmt.
func (e *Exec) toNative(v Value) (interface{}, bool) {
	switch x := v.(type) {
	case *IfaceV:
		if x.T == nil {
			return nil, true
		}
		// error values: use their message via Error()
		if types.Implements(x.T, errorIface()) {
			fn := e.prog.LookupMethod(x.T, nil, "Error")
			if fn != nil && x.T.String() != "runtimeError" {
				r := e.call(fn, []Value{x.V}, nil)
				if s, ok := concStr(r); ok {
					return fmt.Errorf("%s", s), true
				}
				return nil, false
			}
		}
		if strT, ok := x.V.(*StrV); ok && strT.C != nil {
			return *strT.C, true
		}
		if b, ok := x.V.(*BV); ok && b.C != nil {
			_, sg := width(x.T)
			if bt, isB := x.T.Underlying().(*types.Basic); isB && bt.Kind() == types.Uint8 {
				return byte(*b.C), true
			}
			if sg {
				if b.W == 32 {
					return int32(b.sval()), true
				}
				return int(b.sval()), true
			}
			return uint(*b.C), true
		}
		if b, ok := x.V.(*BoolV); ok && b.C != nil {
			return *b.C, true
		}
		if sl, ok := x.V.(*SliceV); ok {
			if st, isSl := x.T.Underlying().(*types.Slice); isSl {
				if w, _ := width(st.Elem()); w == 8 {
					if bs, ok := e.concBytes(sl); ok {
						return bs, true
					}
				}
				if isString(st.Elem()) {
					n, ok := concInt(sl.Len)
					if ok {
						out := make([]string, n)
						for i := range out {
							s, ok := concStr(e.sliceElem(sl, i))
							if !ok {
								return nil, false
							}
							out[i] = s
						}
						return out, true
					}
				}
				if w, sg := width(st.Elem()); w == 64 && sg {
					n, ok := concInt(sl.Len)
					if ok {
						out := make([]int, n)
						for i := range out {
							c, ok := concInt(e.sliceElem(sl, i))
							if !ok {
								return nil, false
							}
							out[i] = int(c)
						}
						if strings.HasSuffix(x.T.String(), "asn1.ObjectIdentifier") {
							parts := make([]string, len(out))
							for i, a := range out {
								parts[i] = fmt.Sprint(a)
							}
							return oidStringer(strings.Join(parts, ".")), true
						}
						return out, true
					}
				}
			}
		}
	}
	return nil, false
}

type oidStringer string

func (o oidStringer) String() string { return string(o) }

var errIface *types.Interface

func errorIface() *types.Interface {
	if errIface == nil {
		errIface = types.Universe.Lookup("error").Type().Underlying().(*types.Interface)
	}
	return errIface
}
