package main

// Uninterpreted pure-function stubs: the result of a stubbed callee is a tree
// of applications of fresh function symbols to the (scalar content of the)
// arguments.  Same arguments => same result; otherwise unconstrained.

import (
	"fmt"
	"go/types"
	"regexp"
	"regexp/syntax"
	"strings"
)

type argTerm struct{ t, sort, abbr string }

func (e *Exec) flattenArg(v Value, out *[]argTerm, depth int) {
	if depth > 6 {
		e.unsupported("uf argument too deep")
	}
	v = e.force(v)
	switch x := v.(type) {
	case nil:
	case *BV:
		*out = append(*out, argTerm{x.T, fmt.Sprintf("(_ BitVec %d)", x.W), fmt.Sprintf("b%d", x.W)})
	case *BoolV:
		*out = append(*out, argTerm{x.T, "Bool", "p"})
	case *StrV:
		*out = append(*out, argTerm{x.T, "String", "s"})
	case *BigV:
		*out = append(*out, argTerm{x.T, "Int", "i"})
	case *SliceV:
		if x.O == nil && x.NilSym == "" {
			*out = append(*out, argTerm{smtStr("nil-slice"), "String", "s"})
			return
		}
		n, ok := concInt(x.Len)
		if !ok {
			n = int64(e.concretize(x.Len, x.Cap+1))
		}
		isBytes := true
		var elems []Value
		for i := 0; i < int(n); i++ {
			el := e.sliceElem(x, i)
			if b, ok := el.(*BV); !ok || b.W != 8 {
				isBytes = false
			}
			elems = append(elems, el)
		}
		if isBytes && n > 0 {
			s := e.bytesToStr(&SliceV{O: x.O, P: x.P, Off: x.Off, Len: cbv(uint64(n), 64), Cap: x.Cap})
			*out = append(*out, argTerm{s.T, "String", "s"})
			return
		}
		*out = append(*out, argTerm{fmt.Sprintf("(_ bv%d 64)", n), "(_ BitVec 64)", "b64"})
		for _, el := range elems {
			e.flattenArg(el, out, depth+1)
		}
	case *PtrV:
		if x.O == nil {
			*out = append(*out, argTerm{smtStr("nil"), "String", "s"})
			return
		}
		inner := e.rawLoad(x)
		inner = e.force(inner)
		switch y := inner.(type) {
		case *OpaqueV:
			if re, ok := y.N.(*regexp.Regexp); ok {
				*out = append(*out, argTerm{smtStr("re:" + re.String()), "String", "s"})
			} else {
				*out = append(*out, argTerm{smtStr(fmt.Sprintf("opaque:%v", y.N)), "String", "s"})
			}
		default:
			e.flattenArg(inner, out, depth+1)
		}
	case *IfaceV:
		if x.T == nil {
			*out = append(*out, argTerm{smtStr("nil"), "String", "s"})
			return
		}
		*out = append(*out, argTerm{smtStr("T:" + x.T.String()), "String", "s"})
		e.flattenArg(x.V, out, depth+1)
	case *StructV:
		for _, f := range x.F {
			e.flattenArg(f, out, depth+1)
		}
	case *ArrayV:
		for _, f := range x.E {
			e.flattenArg(f, out, depth+1)
		}
	case *TupleV:
		for _, f := range x.E {
			e.flattenArg(f, out, depth+1)
		}
	case *FuncV:
		nm := "nil-func"
		if x.Fn != nil {
			nm = x.Fn.String()
		}
		*out = append(*out, argTerm{smtStr(nm), "String", "s"})
	case *UFV:
		*out = append(*out, argTerm{smtStr("ufv:" + x.Name), "String", "s"})
	case *OpaqueV:
		*out = append(*out, argTerm{smtStr(fmt.Sprintf("opaque:%v", x.N)), "String", "s"})
	case *MapV:
		e.unsupported("map argument to uninterpreted stub")
	default:
		e.unsupported("uf argument %T", v)
	}
}

type ufApp struct {
	e     *Exec
	base  string
	args  []argTerm
	bound int
}

func (u *ufApp) term(path, sort string) string {
	var abbr []string
	var sorts []string
	var ts []string
	for _, a := range u.args {
		abbr = append(abbr, a.abbr)
		sorts = append(sorts, a.sort)
		ts = append(ts, a.t)
	}
	name := quoteSym("uf:" + u.base + path + ":" + strings.Join(abbr, ""))
	if len(u.args) == 0 {
		u.e.declare(name, sort)
		return name
	}
	u.e.declareFun(name, "("+strings.Join(sorts, " ")+") "+sort)
	return "(" + name + " " + strings.Join(ts, " ") + ")"
}

func (e *Exec) ufCall(base string, args []Value, rt types.Type) Value {
	var at []argTerm
	for _, a := range args {
		e.flattenArg(a, &at, 0)
	}
	bound := e.cfg.ListBound
	if b, ok := e.cfg.Bounds["uf:"+base]; ok && b > 0 {
		bound = b
	}
	u := &ufApp{e: e, base: base, args: at, bound: bound}
	return u.mk("", rt)
}

func (u *ufApp) once(key, cond string) {
	e := u.e
	k := "ufax#" + key
	if !e.declared[k] {
		e.declared[k] = true
		e.assume(cond)
	}
}

func (u *ufApp) mk(path string, t types.Type) Value {
	e := u.e
	if tup, ok := t.(*types.Tuple); ok {
		if tup.Len() == 1 {
			return u.mk(path, tup.At(0).Type())
		}
		tv := &TupleV{}
		// errors first decide the shape: if the last result is an error and it is non-nil, other results are zero
		n := tup.Len()
		if n >= 2 && types.Identical(tup.At(n-1).Type(), types.Universe.Lookup("error").Type()) {
			errv := u.mk(fmt.Sprintf("%s.%d", path, n-1), tup.At(n-1).Type()).(*IfaceV)
			for i := 0; i < n-1; i++ {
				if errv.T != nil {
					tv.E = append(tv.E, e.zero(tup.At(i).Type()))
				} else {
					tv.E = append(tv.E, u.mk(fmt.Sprintf("%s.%d", path, i), tup.At(i).Type()))
				}
			}
			tv.E = append(tv.E, errv)
			return tv
		}
		for i := 0; i < n; i++ {
			tv.E = append(tv.E, u.mk(fmt.Sprintf("%s.%d", path, i), tup.At(i).Type()))
		}
		return tv
	}
	if namedOf(t) == "time.Time" {
		ns := u.term(path+"!nsec", "(_ BitVec 64)")
		ext := u.term(path+"!sec", "(_ BitVec 64)")
		u.once(ns, fmt.Sprintf("(bvult %s (_ bv1000000000 64))", ns))
		u.once(ext, fmt.Sprintf("(and (bvslt %s (_ bv36028797018963968 64)) (bvsgt %s (bvneg (_ bv36028797018963968 64))))", ext, ext))
		return &StructV{F: []Value{&BV{T: ns, W: 64}, &BV{T: ext, W: 64}, &PtrV{}}}
	}
	switch ut := t.Underlying().(type) {
	case *types.Basic:
		if isBool(t) {
			return &BoolV{T: u.term(path, "Bool")}
		}
		if isString(t) {
			tm := u.term(path, "String")
			u.once(tm, "(str.in_re "+tm+" "+byteRangeRe+")")
			return &StrV{T: tm}
		}
		if w, _ := width(t); w > 0 {
			return &BV{T: u.term(path, fmt.Sprintf("(_ BitVec %d)", w)), W: w}
		}
	case *types.Struct:
		s := &StructV{F: make([]Value, ut.NumFields())}
		for i := 0; i < ut.NumFields(); i++ {
			s.F[i] = u.mk(path+"."+ut.Field(i).Name(), ut.Field(i).Type())
		}
		return s
	case *types.Array:
		a := &ArrayV{E: make([]Value, ut.Len())}
		for i := range a.E {
			a.E[i] = u.mk(fmt.Sprintf("%s[%d]", path, i), ut.Elem())
		}
		return a
	case *types.Pointer:
		switch namedOf(ut.Elem()) {
		case "time.Location":
			return &PtrV{}
		case "math/big.Int":
			return &PtrV{O: e.newObj(&BigV{T: u.term(path, "Int")}, "uf-big")}
		}
		nn := u.term(path+"!nn", "Bool")
		if !e.branch(&BoolV{T: nn}) {
			return &PtrV{}
		}
		return &PtrV{O: e.newObj(u.mk(path+".*", ut.Elem()), "uf:"+u.base+path)}
	case *types.Slice:
		ln := u.term(path+"!len", "(_ BitVec 64)")
		u.once(ln, fmt.Sprintf("(bvule %s (_ bv%d 64))", ln, u.bound))
		bound := u.bound
		if w, _ := width(ut.Elem()); w == 8 {
			bound = e.cfg.ByteBound
			u.once(ln+"b", fmt.Sprintf("(bvule %s (_ bv%d 64))", ln, bound))
		}
		arr := &ArrayV{E: make([]Value, bound)}
		for i := range arr.E {
			arr.E[i] = u.mk(fmt.Sprintf("%s[%d]", path, i), ut.Elem())
		}
		nilsym := u.term(path+"!nil", "Bool")
		u.once(nilsym, fmt.Sprintf("(=> %s (= %s (_ bv0 64)))", nilsym, ln))
		return &SliceV{O: e.newObj(arr, "uf:"+u.base+path), Len: &BV{T: ln, W: 64}, Cap: bound, NilSym: nilsym}
	case *types.Interface:
		if ut.Empty() {
			// decoded attribute values: nil or a string (every ASN.1 string type decodes to a Go string)
			isNil := u.term(path+"!nil", "Bool")
			if e.branch(&BoolV{T: isNil}) {
				return &IfaceV{}
			}
			tm := u.term(path+"!str", "String")
			u.once(tm, "(str.in_re "+tm+" "+byteRangeRe+")")
			return &IfaceV{T: types.Typ[types.String], V: &StrV{T: tm}}
		}
		if types.Identical(t, types.Universe.Lookup("error").Type()) {
			isErr := u.term(path+"!err", "Bool")
			if !e.branch(&BoolV{T: isErr}) {
				return &IfaceV{}
			}
			msg := u.term(path+"!msg", "String")
			return e.mkErrorV(&StrV{T: msg})
		}
	}
	e.unsupported("uf result of type %s", t.String())
	return nil
}

// regexToSMT translates the regular expressions that have an exact SMT-LIB
// counterpart; anything else is left to the uninterpreted stub.
func regexToSMT(pat string) (string, bool) {
	re, err := syntax.Parse(pat, syntax.Perl)
	if err != nil {
		return "", false
	}
	re = re.Simplify()
	// detect anchors at both ends of a top-level concatenation
	begin, end := false, false
	subs := []*syntax.Regexp{re}
	if re.Op == syntax.OpConcat {
		subs = re.Sub
	}
	if len(subs) > 0 && subs[0].Op == syntax.OpBeginText {
		begin = true
		subs = subs[1:]
	}
	if len(subs) > 0 && subs[len(subs)-1].Op == syntax.OpEndText {
		end = true
		subs = subs[:len(subs)-1]
	}
	var parts []string
	for _, s := range subs {
		t, ok := reTerm(s)
		if !ok {
			return "", false
		}
		parts = append(parts, t)
	}
	var body string
	switch len(parts) {
	case 0:
		body = `(str.to_re "")`
	case 1:
		body = parts[0]
	default:
		body = "(re.++ " + strings.Join(parts, " ") + ")"
	}
	if !begin {
		body = "(re.++ re.all " + body + ")"
	}
	if !end {
		body = "(re.++ " + body + " re.all)"
	}
	return body, true
}

func reTerm(re *syntax.Regexp) (string, bool) {
	switch re.Op {
	case syntax.OpLiteral:
		if re.Flags&syntax.FoldCase != 0 {
			var parts []string
			for _, r := range re.Rune {
				if r > 255 {
					return "", false
				}
				lo, up := strings.ToLower(string(r)), strings.ToUpper(string(r))
				if lo == up {
					parts = append(parts, "(str.to_re "+smtStr(string([]byte{byte(r)}))+")")
				} else {
					parts = append(parts, "(re.union (str.to_re "+smtStr(lo)+") (str.to_re "+smtStr(up)+"))")
				}
			}
			if len(parts) == 1 {
				return parts[0], true
			}
			return "(re.++ " + strings.Join(parts, " ") + ")", true
		}
		var bs []byte
		for _, r := range re.Rune {
			if r > 127 {
				return "", false
			}
			bs = append(bs, byte(r))
		}
		return "(str.to_re " + smtStr(string(bs)) + ")", true
	case syntax.OpCharClass:
		var parts []string
		for i := 0; i+1 < len(re.Rune); i += 2 {
			lo, hi := re.Rune[i], re.Rune[i+1]
			if lo > 127 {
				// non-ASCII ranges cannot be matched byte-wise
				if lo > 255 || hi > 0x10ffff {
					continue
				}
				return "", false
			}
			if hi > 127 {
				return "", false
			}
			if lo == hi {
				parts = append(parts, "(str.to_re "+smtStr(string([]byte{byte(lo)}))+")")
			} else {
				parts = append(parts, "(re.range "+smtStr(string([]byte{byte(lo)}))+" "+smtStr(string([]byte{byte(hi)}))+")")
			}
		}
		if len(parts) == 0 {
			return "re.none", true
		}
		if len(parts) == 1 {
			return parts[0], true
		}
		return "(re.union " + strings.Join(parts, " ") + ")", true
	case syntax.OpAnyCharNotNL, syntax.OpAnyChar:
		return "", false // multi-byte runes: not byte-exact
	case syntax.OpStar, syntax.OpPlus, syntax.OpQuest:
		t, ok := reTerm(re.Sub[0])
		if !ok {
			return "", false
		}
		op := map[syntax.Op]string{syntax.OpStar: "re.*", syntax.OpPlus: "re.+", syntax.OpQuest: "re.opt"}[re.Op]
		return "(" + op + " " + t + ")", true
	case syntax.OpRepeat:
		t, ok := reTerm(re.Sub[0])
		if !ok {
			return "", false
		}
		if re.Max < 0 {
			return fmt.Sprintf("(re.++ ((_ re.loop %d %d) %s) (re.* %s))", re.Min, re.Min, t, t), true
		}
		return fmt.Sprintf("((_ re.loop %d %d) %s)", re.Min, re.Max, t), true
	case syntax.OpConcat:
		var parts []string
		for _, s := range re.Sub {
			t, ok := reTerm(s)
			if !ok {
				return "", false
			}
			parts = append(parts, t)
		}
		return "(re.++ " + strings.Join(parts, " ") + ")", true
	case syntax.OpAlternate:
		var parts []string
		for _, s := range re.Sub {
			t, ok := reTerm(s)
			if !ok {
				return "", false
			}
			parts = append(parts, t)
		}
		return "(re.union " + strings.Join(parts, " ") + ")", true
	case syntax.OpCapture:
		return reTerm(re.Sub[0])
	case syntax.OpEmptyMatch:
		return `(str.to_re "")`, true
	}
	return "", false
}
