package main

import "golang.org/x/tools/go/ssa"

// countedBlocks returns the blocks of fn at which a *symbolic* decision counts
// towards the unwind limit: the header of each natural loop when the header
// itself ends in a conditional (then the trip count is bounded by that
// condition alone), otherwise the exiting blocks of the loop.  Symbolic
// decisions elsewhere (an early return inside a loop over a concrete table)
// do not bound anything and are not counted.
func (e *Exec) countedBlocks(fn *ssa.Function) map[*ssa.BasicBlock]bool {
	if m, ok := e.loopCache[fn]; ok {
		return m
	}
	m := map[*ssa.BasicBlock]bool{}
	for _, b := range fn.Blocks {
		for _, h := range b.Succs {
			if !h.Dominates(b) {
				continue
			}
			// back edge b -> h: collect the natural loop
			body := map[*ssa.BasicBlock]bool{h: true}
			stack := []*ssa.BasicBlock{b}
			for len(stack) > 0 {
				x := stack[len(stack)-1]
				stack = stack[:len(stack)-1]
				if body[x] {
					continue
				}
				body[x] = true
				stack = append(stack, x.Preds...)
			}
			if _, isIf := h.Instrs[len(h.Instrs)-1].(*ssa.If); isIf {
				m[h] = true
				continue
			}
			for x := range body {
				if _, isIf := x.Instrs[len(x.Instrs)-1].(*ssa.If); !isIf {
					continue
				}
				for _, s := range x.Succs {
					if !body[s] {
						m[x] = true
					}
				}
			}
		}
	}
	e.loopCache[fn] = m
	return m
}
