package main

import (
	"go/types"
	"strings"

	"golang.org/x/tools/go/ssa"
)

// Packages whose functions are executed from their SSA bodies.  Everything
// else must be an intrinsic (model, native evaluation or stub) or the path ends
// "unsupported".
// during symbolic execution only these are run from source
var symSourcePkgs = map[string]bool{
	"errors": true, "time": true, "net": true, "unicode/utf8": true, "unicode/utf16": true, "unicode": true,
	"bytes": true, "strings": true, "sort": true, "slices": true, "cmp": true, "math/bits": true, "strconv": true,
	"internal/bytealg": true, "internal/stringslite": true, "internal/byteorder": true, "encoding/binary": true,
	"golang.org/x/crypto/cryptobyte": true, "golang.org/x/crypto/cryptobyte/asn1": true,
	"encoding/asn1": true, "github.com/zmap/zcrypto/encoding/asn1": true,
	"github.com/zmap/zcrypto/x509/pkix": true, "github.com/zmap/zcrypto/x509": true,
	"github.com/zmap/zcrypto/util": true,
	"net/netip":                    true, "math": true, "encoding/hex": true,
}

func (e *Exec) execFromSource(fn *ssa.Function) bool {
	if fn.Pkg == nil {
		// synthetic wrappers, bound methods, instantiated generics: decide by the declaring package of the origin
		if o := fn.Origin(); o != nil && o.Pkg != nil {
			return e.pkgFromSource(o.Pkg.Pkg.Path())
		}
		if fn.Synthetic != "" {
			return true
		}
		if fn.Parent() != nil {
			return e.execFromSource(fn.Parent())
		}
		return true
	}
	return e.pkgFromSource(fn.Pkg.Pkg.Path())
}

func (e *Exec) pkgFromSource(p string) bool {
	if strings.HasPrefix(p, "github.com/zmap/zlint/v3") {
		return true
	}
	if e.srcExtra[p] > 0 {
		return true
	}
	return symSourcePkgs[p]
}

func (e *Exec) global(g *ssa.Global) *Obj {
	if o, ok := e.globals[g]; ok {
		return o
	}
	o := &Obj{V: e.zero(g.Type().(*types.Pointer).Elem()), Name: g.String(), Tag: "global:" + g.String()}
	e.globals[g] = o
	if !e.initDone {
		e.initObjs = append(e.initObjs, o)
	} else {
		// a global first touched after initialisation: remember its pristine value
		e.initSaved[o] = o.V
	}
	if g.Pkg != nil && !e.inited[g.Pkg] && !strings.HasPrefix(g.Name(), "init$") && e.pkgFromSource(g.Pkg.Pkg.Path()) {
		e.runInit(g.Pkg)
		if e.initDone {
			e.initSaved[o] = o.V
		}
	}
	return o
}

// runInit executes a package initialiser concretely and poison-tolerantly.
func (e *Exec) runInit(p *ssa.Package) {
	if e.inited[p] {
		return
	}
	e.inited[p] = true
	fn := p.Func("init")
	if fn == nil {
		return
	}
	late := e.initDone
	if late {
		// lazily initialised standard-library package: its objects join the frozen state
		e.initDone = false
	}
	e.initMode++
	savedDepth := e.depth
	defer func() {
		e.initMode--
		e.depth = savedDepth
		if late {
			e.initDone = true
			for _, o := range e.initObjs {
				if _, ok := e.initSaved[o]; !ok {
					e.initSaved[o] = o.V
				}
			}
			for _, m := range e.initMaps {
				if _, ok := e.initMapSaved[m]; !ok {
					e.initMapSaved[m] = [2][]Value{append([]Value{}, m.K...), append([]Value{}, m.V...)}
				}
			}
			if e.objSeq > e.initSeq {
				e.initSeq = e.objSeq
			}
		}
	}()
	defer func() {
		if r := recover(); r != nil {
			switch x := r.(type) {
			case pathEnd:
				e.poisoned["INIT ABORTED "+p.Pkg.Path()+": "+x.msg]++
			case goPanic:
				e.poisoned["INIT PANIC "+p.Pkg.Path()+": "+x.msg+" @"+x.site]++
			default:
				panic(r)
			}
		}
	}()
	savedRes := e.res
	if e.res == nil {
		e.res = newResult("init")
	}
	defer func() { e.res = savedRes }()
	e.depth = 0
	fr := &frame{fn: fn, locals: map[ssa.Value]Value{}, symVisits: map[*ssa.BasicBlock]int{}}
	saved := e.curFn
	e.curFn = fn
	defer func() { e.curFn = saved }()
	e.runFrom(fr, fn.Blocks[0], true)
}

func (e *Exec) findFunc(pkgPath, name string) *ssa.Function {
	key := pkgPath + "." + name
	if f, ok := e.fnCache[key]; ok {
		return f
	}
	for _, p := range e.prog.AllPackages() {
		if p.Pkg.Path() == pkgPath {
			f := p.Func(name)
			e.fnCache[key] = f
			return f
		}
	}
	e.fnCache[key] = nil
	return nil
}

func (e *Exec) findPkg(pkgPath string) *ssa.Package {
	for _, p := range e.prog.AllPackages() {
		if p.Pkg.Path() == pkgPath {
			return p
		}
	}
	return nil
}

func (e *Exec) findMethod(pkgPath, typeName, method string, ptr bool) *ssa.Function {
	p := e.findPkg(pkgPath)
	if p == nil {
		return nil
	}
	tn := p.Type(typeName)
	if tn == nil {
		return nil
	}
	var t types.Type = tn.Type()
	if ptr {
		t = types.NewPointer(t)
	}
	return e.prog.LookupMethod(t, p.Pkg, method)
}
