package main

import (
	"fmt"
	"os"
	"path/filepath"
	"strings"
	"time"

	"golang.org/x/tools/go/packages"
	"golang.org/x/tools/go/ssa"
	"golang.org/x/tools/go/ssa/ssautil"
)

const repoV3 = "/repo/v3"
const zlintMod = "github.com/zmap/zlint/v3"

type Loaded struct {
	Prog     *ssa.Program
	Pkgs     []*packages.Package
	LoadTime time.Duration
	Files    []string // harness files injected
}

// harnessDir is /verif/harness; files harness/<pkgdir>/*.go are injected into
// /repo/v3/<pkgdir>/zz_verif_<name>.go by overlay (the repository is not modified).
func verifRoot() string {
	if r := os.Getenv("VERIF_ROOT"); r != "" {
		return r
	}
	exe, err := os.Executable()
	if err == nil {
		d := filepath.Dir(filepath.Dir(exe))
		if _, err := os.Stat(filepath.Join(d, "harness")); err == nil {
			return d
		}
	}
	return "/verif"
}

func buildOverlay(extra map[string]string) (map[string][]byte, []string, error) {
	ov := map[string][]byte{}
	var files []string
	root := filepath.Join(verifRoot(), "harness")
	err := filepath.Walk(root, func(p string, info os.FileInfo, err error) error {
		if err != nil || info.IsDir() || !strings.HasSuffix(p, ".go") {
			return err
		}
		rel, _ := filepath.Rel(root, p)
		dir, base := filepath.Split(rel)
		dst := filepath.Join(repoV3, dir, "zz_verif_"+base)
		if strings.HasPrefix(rel, "zzverif/") {
			dst = filepath.Join(repoV3, rel)
		}
		b, err := os.ReadFile(p)
		if err != nil {
			return err
		}
		ov[dst] = b
		files = append(files, rel)
		return nil
	})
	for _, kv := range strings.Split(os.Getenv("SYMGO_OVERLAY"), ",") {
		if p := strings.SplitN(kv, "=", 2); len(p) == 2 {
			if extra == nil {
				extra = map[string]string{}
			}
			extra[p[0]] = p[1]
		}
	}
	for virt, real := range extra {
		b, err := os.ReadFile(real)
		if err != nil {
			return nil, nil, err
		}
		ov[virt] = b
	}
	return ov, files, err
}

func loadProgram(patterns []string, extraOverlay map[string]string) (*Loaded, error) {
	t0 := time.Now()
	ov, files, err := buildOverlay(extraOverlay)
	if err != nil {
		return nil, err
	}
	cfg := &packages.Config{Mode: packages.LoadAllSyntax, Dir: repoV3, Overlay: ov,
		Env: append(os.Environ(), "GOFLAGS=-mod=mod", "GOPROXY=off", "GOSUMDB=off", "GOTOOLCHAIN=local")}
	pkgs, err := packages.Load(cfg, patterns...)
	if err != nil {
		return nil, err
	}
	nerr := 0
	packages.Visit(pkgs, nil, func(p *packages.Package) {
		for _, e := range p.Errors {
			if strings.HasPrefix(p.PkgPath, zlintMod) {
				fmt.Fprintln(os.Stderr, "load error:", e)
				nerr++
			}
		}
	})
	if nerr > 0 {
		return nil, fmt.Errorf("%d load errors in zlint packages (the tree does not compile with the harness overlay)", nerr)
	}
	prog, _ := ssautil.AllPackages(pkgs, ssa.InstantiateGenerics)
	prog.Build()
	return &Loaded{Prog: prog, Pkgs: pkgs, LoadTime: time.Since(t0), Files: files}, nil
}

func (l *Loaded) Pkg(path string) *ssa.Package {
	for _, p := range l.Prog.AllPackages() {
		if p.Pkg.Path() == path {
			return p
		}
	}
	return nil
}
