package main

import "fmt"

func init() {
	checks["C08"] = func(c *Check) {
		c.Technique = "symbolic execution of go/ssa + SMT (z3): registries built through the real register functions, FilterOptions symbolic (name lists of arbitrary strings, source lists, arbitrary pattern), compared with the five-clause oracle"
		c.Assume("a regular expression is an arbitrary predicate on the registered names (one free Bool per name); strings.TrimSpace by its ASCII-blank model")
		c.Assume("registries of up to the stated number of lints per kind with distinct names; sources drawn from three declared sources (+ one source no lint has in the option lists)")
		type cfg struct{ cert, crl, ocsp, inc, exc, incsrc, excsrc, pattern int }
		var cfgs []cfg
		if c.Quick() {
			cfgs = []cfg{
				{1, 1, 1, 1, 1, 0, 0, 0}, // names
				{1, 1, 1, 0, 0, 1, 1, 0}, // sources
				{1, 1, 1, 1, 0, 0, 1, 1}, // pattern with include list / exclude source
				{1, 1, 1, 0, 1, 1, 0, 1}, // pattern with exclude list / include source
				{2, 0, 1, 2, 0, 0, 0, 0}, // two-entry include list
				{1, 1, 0, 0, 2, 0, 0, 0}, // two-entry exclude list
			}
		} else {
			cfgs = []cfg{
				{1, 1, 1, 1, 1, 1, 1, 1},
				{2, 1, 1, 2, 1, 0, 0, 1},
				{2, 1, 1, 1, 2, 0, 0, 1},
				{2, 1, 1, 0, 0, 2, 2, 1},
				{2, 2, 2, 1, 1, 0, 0, 0},
				{1, 1, 1, 2, 2, 0, 0, 0},
			}
		}
		symsrc := 0
		if !c.Quick() {
			symsrc = 1
		}
		for _, k := range cfgs {
			k := k
			c.Add(&Job{Label: fmt.Sprintf("Filter/lints=%d+%d+%d,inc<=%d,exc<=%d,incsrc<=%d,excsrc<=%d,pattern=%d", k.cert, k.crl, k.ocsp, k.inc, k.exc, k.incsrc, k.excsrc, k.pattern),
				Pkg: lintPkg, Func: "VerifC08Filter", MustCover: []string{"accepted options", "lint selected", "lint dropped"},
				Tune: func(cf *Config) {
					b := cf.Bounds
					b["param:c08.symsrc"] = symsrc
					b["param:c08.cert"], b["param:c08.crl"], b["param:c08.ocsp"] = k.cert, k.crl, k.ocsp
					b["param:c08.inc"], b["param:c08.exc"], b["param:c08.incsrc"], b["param:c08.excsrc"], b["param:c08.pattern"] = k.inc, k.exc, k.incsrc, k.excsrc, k.pattern
				}})
		}
	}
}
