package main

// math/big.Int as a mathematical integer (SMT Int).  Only the methods the
// lints use; each has its documented meaning.

import (
	"fmt"
	"go/types"
	"math/big"
	"strings"

	"golang.org/x/tools/go/ssa"
)

var bitLenAnchors = []int{1, 2, 3, 4, 5, 6, 7, 8, 9, 16, 17, 24, 32, 33, 64, 65, 128, 256, 512, 1023, 1024, 1025, 2047, 2048, 2049, 3071, 3072, 3073, 4095, 4096, 4097, 8192}

func (e *Exec) getBig(v Value) *BigV {
	p, ok := v.(*PtrV)
	if !ok {
		e.unsupported("big.Int receiver %T", v)
	}
	if p.O == nil {
		panic(goPanic{msg: "nil pointer dereference (*big.Int)", site: e.curSite})
	}
	raw := e.force(e.rawLoad(p))
	switch x := raw.(type) {
	case *BigV:
		return x
	case *StructV:
		// zero value of big.Int
		return cbig(big.NewInt(0))
	case *Poison:
		e.unsupported("poison: %s", x.Why)
	}
	e.unsupported("big.Int cell holds %T", raw)
	return nil
}

func (e *Exec) setBig(v Value, b *BigV) Value {
	p := v.(*PtrV)
	if p.O == nil {
		panic(goPanic{msg: "nil pointer dereference (*big.Int)", site: e.curSite})
	}
	e.store(p, b, e.curSite)
	return p
}

func (e *Exec) newBig(b *BigV) *PtrV {
	return &PtrV{O: e.newObj(b, "big")}
}

func bigBin(op string, a, b *BigV, f func(x, y *big.Int) *big.Int) *BigV {
	if a.C != nil && b.C != nil && f != nil {
		return cbig(f(a.C, b.C))
	}
	return &BigV{T: "(" + op + " " + a.T + " " + b.T + ")"}
}

func pow2(n int) string { return new(big.Int).Lsh(big.NewInt(1), uint(n)).String() }

func addBigIntrinsics(m map[string]intrinsic) {
	m["math/big.NewInt"] = func(e *Exec, fn *ssa.Function, args []Value) Value {
		b := args[0].(*BV)
		if b.C != nil {
			return e.newBig(cbig(big.NewInt(b.sval())))
		}
		// signed 64-bit to Int
		t := fmt.Sprintf("(ite (bvslt %s (_ bv0 64)) (- (bv2nat %s) 18446744073709551616) (bv2nat %s))", b.T, b.T, b.T)
		return e.newBig(&BigV{T: t})
	}
	m["(*math/big.Int).SetInt64"] = func(e *Exec, fn *ssa.Function, args []Value) Value {
		b := args[1].(*BV)
		if b.C != nil {
			return e.setBig(args[0], cbig(big.NewInt(b.sval())))
		}
		t := fmt.Sprintf("(ite (bvslt %s (_ bv0 64)) (- (bv2nat %s) 18446744073709551616) (bv2nat %s))", b.T, b.T, b.T)
		return e.setBig(args[0], &BigV{T: t})
	}
	m["(*math/big.Int).SetUint64"] = func(e *Exec, fn *ssa.Function, args []Value) Value {
		b := args[1].(*BV)
		if b.C != nil {
			return e.setBig(args[0], cbig(new(big.Int).SetUint64(*b.C)))
		}
		return e.setBig(args[0], &BigV{T: "(bv2nat " + b.T + ")"})
	}
	m["(*math/big.Int).Set"] = func(e *Exec, fn *ssa.Function, args []Value) Value {
		return e.setBig(args[0], e.getBig(args[1]))
	}
	m["(*math/big.Int).SetBytes"] = func(e *Exec, fn *ssa.Function, args []Value) Value {
		sl := args[1].(*SliceV)
		if bs, ok := e.concBytes(sl); ok {
			return e.setBig(args[0], cbig(new(big.Int).SetBytes(bs)))
		}
		n, ok := concInt(sl.Len)
		if !ok {
			n = int64(e.concretize(sl.Len, sl.Cap+1))
		}
		t := "0"
		for i := 0; i < int(n); i++ {
			b := e.sliceElem(sl, i).(*BV)
			t = fmt.Sprintf("(+ (* 256 %s) (bv2nat %s))", t, b.T)
		}
		return e.setBig(args[0], &BigV{T: t})
	}
	m["(*math/big.Int).SetString"] = func(e *Exec, fn *ssa.Function, args []Value) Value {
		s, ok1 := concStr(args[1])
		base, ok2 := concInt(args[2])
		if !ok1 || !ok2 {
			e.unsupported("big.SetString symbolic")
		}
		n, ok := new(big.Int).SetString(s, int(base))
		if !ok {
			return &TupleV{E: []Value{&PtrV{}, cbool(false)}}
		}
		return &TupleV{E: []Value{e.setBig(args[0], cbig(n)), cbool(true)}}
	}
	cmp := func(e *Exec, a, b *BigV) Value {
		if a.C != nil && b.C != nil {
			return cbv(uint64(int64(a.C.Cmp(b.C))), 64)
		}
		return &BV{T: fmt.Sprintf("(ite (< %s %s) (bvneg (_ bv1 64)) (ite (= %s %s) (_ bv0 64) (_ bv1 64)))", a.T, b.T, a.T, b.T), W: 64}
	}
	m["(*math/big.Int).Cmp"] = func(e *Exec, fn *ssa.Function, args []Value) Value {
		return cmp(e, e.getBig(args[0]), e.getBig(args[1]))
	}
	m["(*math/big.Int).CmpAbs"] = func(e *Exec, fn *ssa.Function, args []Value) Value {
		a, b := e.getBig(args[0]), e.getBig(args[1])
		return cmp(e, &BigV{T: "(abs " + a.T + ")"}, &BigV{T: "(abs " + b.T + ")"})
	}
	m["(*math/big.Int).Sign"] = func(e *Exec, fn *ssa.Function, args []Value) Value {
		a := e.getBig(args[0])
		if a.C != nil {
			return cbv(uint64(int64(a.C.Sign())), 64)
		}
		return &BV{T: fmt.Sprintf("(ite (< %s 0) (bvneg (_ bv1 64)) (ite (= %s 0) (_ bv0 64) (_ bv1 64)))", a.T, a.T), W: 64}
	}
	bin := func(op string, f func(x, y *big.Int) *big.Int) intrinsic {
		return func(e *Exec, fn *ssa.Function, args []Value) Value {
			return e.setBig(args[0], bigBin(op, e.getBig(args[1]), e.getBig(args[2]), f))
		}
	}
	m["(*math/big.Int).Add"] = bin("+", func(x, y *big.Int) *big.Int { return new(big.Int).Add(x, y) })
	m["(*math/big.Int).Sub"] = bin("-", func(x, y *big.Int) *big.Int { return new(big.Int).Sub(x, y) })
	m["(*math/big.Int).Mul"] = bin("*", func(x, y *big.Int) *big.Int { return new(big.Int).Mul(x, y) })
	m["(*math/big.Int).Neg"] = func(e *Exec, fn *ssa.Function, args []Value) Value {
		a := e.getBig(args[1])
		if a.C != nil {
			return e.setBig(args[0], cbig(new(big.Int).Neg(a.C)))
		}
		return e.setBig(args[0], &BigV{T: "(- " + a.T + ")"})
	}
	m["(*math/big.Int).Abs"] = func(e *Exec, fn *ssa.Function, args []Value) Value {
		a := e.getBig(args[1])
		if a.C != nil {
			return e.setBig(args[0], cbig(new(big.Int).Abs(a.C)))
		}
		return e.setBig(args[0], &BigV{T: "(abs " + a.T + ")"})
	}
	// Mod is Euclidean modulus (result >= 0), same as SMT-LIB mod for y != 0.
	m["(*math/big.Int).Mod"] = func(e *Exec, fn *ssa.Function, args []Value) Value {
		x, y := e.getBig(args[1]), e.getBig(args[2])
		if y.C != nil && y.C.Sign() == 0 {
			panic(goPanic{msg: "division by zero", site: e.curSite})
		}
		if y.C == nil {
			if e.branch(bigIsZero(y)) {
				panic(goPanic{msg: "division by zero", site: e.curSite})
			}
		}
		return e.setBig(args[0], bigBin("mod", x, y, func(a, b *big.Int) *big.Int { return new(big.Int).Mod(a, b) }))
	}
	// Rem/Quo truncate towards zero; the lints only use them on non-negative values
	m["(*math/big.Int).Rem"] = func(e *Exec, fn *ssa.Function, args []Value) Value {
		x, y := e.getBig(args[1]), e.getBig(args[2])
		if x.C != nil && y.C != nil && y.C.Sign() != 0 {
			return e.setBig(args[0], cbig(new(big.Int).Rem(x.C, y.C)))
		}
		if e.branch(bigIsZero(y)) {
			panic(goPanic{msg: "division by zero", site: e.curSite})
		}
		t := fmt.Sprintf("(ite (>= %s 0) (mod %s %s) (- (mod (- %s) %s)))", x.T, x.T, y.T, x.T, y.T)
		return e.setBig(args[0], &BigV{T: t})
	}
	m["(*math/big.Int).Div"] = func(e *Exec, fn *ssa.Function, args []Value) Value {
		x, y := e.getBig(args[1]), e.getBig(args[2])
		if x.C != nil && y.C != nil && y.C.Sign() != 0 {
			return e.setBig(args[0], cbig(new(big.Int).Div(x.C, y.C)))
		}
		if e.branch(bigIsZero(y)) {
			panic(goPanic{msg: "division by zero", site: e.curSite})
		}
		return e.setBig(args[0], &BigV{T: "(div " + x.T + " " + y.T + ")"})
	}
	m["(*math/big.Int).DivMod"] = func(e *Exec, fn *ssa.Function, args []Value) Value {
		x, y := e.getBig(args[1]), e.getBig(args[2])
		if x.C != nil && y.C != nil && y.C.Sign() != 0 {
			q, r := new(big.Int).DivMod(x.C, y.C, new(big.Int))
			e.setBig(args[3], cbig(r))
			e.setBig(args[0], cbig(q))
			return &TupleV{E: []Value{args[0], args[3]}}
		}
		if e.branch(bigIsZero(y)) {
			panic(goPanic{msg: "division by zero", site: e.curSite})
		}
		e.setBig(args[3], &BigV{T: "(mod " + x.T + " " + y.T + ")"})
		e.setBig(args[0], &BigV{T: "(div " + x.T + " " + y.T + ")"})
		return &TupleV{E: []Value{args[0], args[3]}}
	}
	m["(*math/big.Int).Exp"] = func(e *Exec, fn *ssa.Function, args []Value) Value {
		x, y := e.getBig(args[1]), e.getBig(args[2])
		mp, _ := args[3].(*PtrV)
		if mp != nil && mp.O != nil {
			e.unsupported("big.Exp with modulus")
		}
		if x.C != nil && y.C != nil {
			return e.setBig(args[0], cbig(new(big.Int).Exp(x.C, y.C, nil)))
		}
		if y.C != nil && y.C.IsInt64() && y.C.Int64() >= 0 && y.C.Int64() <= 8 {
			t := "1"
			for i := int64(0); i < y.C.Int64(); i++ {
				t = "(* " + t + " " + x.T + ")"
			}
			return e.setBig(args[0], &BigV{T: t})
		}
		e.unsupported("big.Exp symbolic exponent")
		return nil
	}
	// Sqrt: floor square root, defined by s*s <= x < (s+1)*(s+1), s >= 0
	m["(*math/big.Int).Sqrt"] = func(e *Exec, fn *ssa.Function, args []Value) Value {
		x := e.getBig(args[1])
		if x.C != nil {
			if x.C.Sign() < 0 {
				panic(goPanic{msg: "square root of negative number", site: e.curSite})
			}
			return e.setBig(args[0], cbig(new(big.Int).Sqrt(x.C)))
		}
		if base, ok := squareOf(x.T); ok {
			// floor(sqrt(t*t)) = |t| exactly
			e.stub("model:big.Sqrt(perfect square)")
			return e.setBig(args[0], &BigV{T: "(abs " + base + ")"})
		}
		if e.branch(&BoolV{T: "(< " + x.T + " 0)"}) {
			panic(goPanic{msg: "square root of negative number", site: e.curSite})
		}
		key := "sqrt#" + x.T
		if v, ok := e.lazyMemo[key]; ok {
			return e.setBig(args[0], v.(*BigV))
		}
		s := e.fresh("sqrt", "Int")
		e.assume(fmt.Sprintf("(and (>= %s 0) (<= (* %s %s) %s) (< %s (* (+ %s 1) (+ %s 1))))", s, s, s, x.T, x.T, s, s))
		e.lazyMemo[key] = &BigV{T: s}
		return e.setBig(args[0], &BigV{T: s})
	}
	m["(*math/big.Int).BitLen"] = func(e *Exec, fn *ssa.Function, args []Value) Value {
		x := e.getBig(args[0])
		if x.C != nil {
			return cbv(uint64(x.C.BitLen()), 64)
		}
		return e.bitLen(x)
	}
	m["(*math/big.Int).Bit"] = func(e *Exec, fn *ssa.Function, args []Value) Value {
		x := e.getBig(args[0])
		i, ok := concInt(args[1])
		if !ok {
			e.unsupported("big.Bit symbolic index")
		}
		if x.C != nil {
			return cbv(uint64(x.C.Bit(int(i))), 64)
		}
		// two's complement semantics for negatives equals floor division
		return &BV{T: fmt.Sprintf("((_ int2bv 64) (mod (div %s %s) 2))", x.T, pow2(int(i))), W: 64}
	}
	m["(*math/big.Int).Int64"] = func(e *Exec, fn *ssa.Function, args []Value) Value {
		x := e.getBig(args[0])
		if x.C != nil {
			return cbv(uint64(x.C.Int64()), 64)
		}
		return &BV{T: "((_ int2bv 64) " + x.T + ")", W: 64}
	}
	m["(*math/big.Int).Uint64"] = m["(*math/big.Int).Int64"]
	m["(*math/big.Int).IsInt64"] = func(e *Exec, fn *ssa.Function, args []Value) Value {
		x := e.getBig(args[0])
		if x.C != nil {
			return cbool(x.C.IsInt64())
		}
		return &BoolV{T: fmt.Sprintf("(and (>= %s (- 9223372036854775808)) (<= %s 9223372036854775807))", x.T, x.T)}
	}
	m["(*math/big.Int).IsUint64"] = func(e *Exec, fn *ssa.Function, args []Value) Value {
		x := e.getBig(args[0])
		if x.C != nil {
			return cbool(x.C.IsUint64())
		}
		return &BoolV{T: fmt.Sprintf("(and (>= %s 0) (<= %s 18446744073709551615))", x.T, x.T)}
	}
	m["(*math/big.Int).String"] = func(e *Exec, fn *ssa.Function, args []Value) Value {
		p := args[0].(*PtrV)
		if p.O == nil {
			return cstr("<nil>")
		}
		x := e.getBig(args[0])
		if x.C != nil {
			return cstr(x.C.String())
		}
		e.stub("uf:big.String")
		return e.ufCall("big.String", []Value{x}, types.Typ[types.String])
	}
	m["(*math/big.Int).Text"] = func(e *Exec, fn *ssa.Function, args []Value) Value {
		x := e.getBig(args[0])
		b, ok := concInt(args[1])
		if x.C != nil && ok {
			return cstr(x.C.Text(int(b)))
		}
		e.stub("uf:big.Text")
		return e.ufCall("big.Text", []Value{x, args[1]}, types.Typ[types.String])
	}
	m["(*math/big.Int).Bytes"] = func(e *Exec, fn *ssa.Function, args []Value) Value {
		x := e.getBig(args[0])
		if x.C != nil {
			return e.byteSlice(x.C.Bytes())
		}
		e.stub("uf:big.Bytes")
		return e.ufCall("big.Bytes", []Value{x}, fn.Signature.Results().At(0).Type())
	}
	m["(*math/big.Int).ProbablyPrime"] = func(e *Exec, fn *ssa.Function, args []Value) Value {
		x := e.getBig(args[0])
		n, ok := concInt(args[1])
		if x.C != nil && ok {
			return cbool(x.C.ProbablyPrime(int(n)))
		}
		e.stub("uf:big.ProbablyPrime")
		return e.ufCall("big.ProbablyPrime", []Value{x}, types.Typ[types.Bool])
	}
	m["(*math/big.Int).TrailingZeroBits"] = func(e *Exec, fn *ssa.Function, args []Value) Value {
		x := e.getBig(args[0])
		if x.C != nil {
			return cbv(uint64(x.C.TrailingZeroBits()), 64)
		}
		e.unsupported("big.TrailingZeroBits symbolic")
		return nil
	}
	m["(*math/big.Int).Lsh"] = func(e *Exec, fn *ssa.Function, args []Value) Value {
		x := e.getBig(args[1])
		n, ok := concInt(args[2])
		if !ok {
			e.unsupported("big.Lsh symbolic count")
		}
		if x.C != nil {
			return e.setBig(args[0], cbig(new(big.Int).Lsh(x.C, uint(n))))
		}
		return e.setBig(args[0], &BigV{T: "(* " + x.T + " " + pow2(int(n)) + ")"})
	}
	m["(*math/big.Int).Rsh"] = func(e *Exec, fn *ssa.Function, args []Value) Value {
		x := e.getBig(args[1])
		n, ok := concInt(args[2])
		if !ok {
			e.unsupported("big.Rsh symbolic count")
		}
		if x.C != nil {
			return e.setBig(args[0], cbig(new(big.Int).Rsh(x.C, uint(n))))
		}
		return e.setBig(args[0], &BigV{T: "(div " + x.T + " " + pow2(int(n)) + ")"})
	}
}

// bitLen: an integer b with b >= 0, b = 0 <=> x = 0, and for every anchor c:
// b >= c  <=>  |x| >= 2^(c-1).  This over-approximates BitLen (every true
// value satisfies the constraints), so proofs are sound; models are re-checked
// natively.
func (e *Exec) bitLen(x *BigV) Value {
	key := "bitlen#" + x.T
	if v, ok := e.lazyMemo[key]; ok {
		return v
	}
	b := e.fresh("bitlen", "Int")
	abs := "(abs " + x.T + ")"
	e.assume(fmt.Sprintf("(and (>= %s 0) (= (= %s 0) (= %s 0)))", b, b, x.T))
	anchors := append(append([]int{}, bitLenAnchors...), e.cfg.BitLenExtra...)
	for _, c := range anchors {
		e.assume(fmt.Sprintf("(= (>= %s %d) (>= %s %s))", b, c, abs, pow2(c-1)))
	}
	e.assume(fmt.Sprintf("(< %s 16384)", b))
	v := &BV{T: "((_ int2bv 64) " + b + ")", W: 64, I: b}
	e.lazyMemo[key] = v
	e.stub("model:big.BitLen(anchored)")
	return v
}

func bigIsZero(y *BigV) *BoolV {
	if y.C != nil {
		return cbool(y.C.Sign() == 0)
	}
	return &BoolV{T: "(= " + y.T + " 0)"}
}

// squareOf recognises the term (* T T).
func squareOf(t string) (string, bool) {
	if !strings.HasPrefix(t, "(* ") || !strings.HasSuffix(t, ")") {
		return "", false
	}
	body := t[3 : len(t)-1]
	if len(body)%2 != 1 {
		return "", false
	}
	h := len(body) / 2
	if body[h] != ' ' || body[:h] != body[h+1:] {
		return "", false
	}
	// the halves must be balanced terms
	d := 0
	for _, c := range body[:h] {
		if c == '(' {
			d++
		} else if c == ')' {
			d--
			if d < 0 {
				return "", false
			}
		}
	}
	if d != 0 {
		return "", false
	}
	return body[:h], true
}
