package main

import (
	"fmt"
	"go/types"
	"strings"
)

// Dynamic types an interface-typed field of a parsed input object may hold.
// The table mirrors what the zcrypto parser stores (x509.go parsePublicKey);
// harness/zzverif/cands.go holds the same table for native replay.
var ifaceCandSpecs = map[string][]string{
	".PublicKey": {"*crypto/rsa.PublicKey", "*crypto/dsa.PublicKey", "*github.com/zmap/zcrypto/x509.AugmentedECDSA", "crypto/ed25519.PublicKey", "github.com/zmap/zcrypto/x509.X25519PublicKey", ""},
}

func (e *Exec) ifaceCandidates(key string) ([]types.Type, bool) {
	if c, ok := e.lazyIface[key]; ok {
		return c, true
	}
	specs, ok := ifaceCandSpecs[key]
	if !ok {
		// suffix match ("c.PublicKey" of any root, nested paths)
		for k, s := range ifaceCandSpecs {
			if strings.HasSuffix(key, k) {
				specs, ok = s, true
			}
		}
	}
	if !ok {
		return nil, false
	}
	var out []types.Type
	for _, s := range specs {
		if s == "" {
			out = append(out, nil)
			continue
		}
		ptr := strings.HasPrefix(s, "*")
		s = strings.TrimPrefix(s, "*")
		i := strings.LastIndex(s, ".")
		p := e.findPkg(s[:i])
		if p == nil || p.Type(s[i+1:]) == nil {
			e.unsupported("candidate type %s not loaded", s)
		}
		var t types.Type = p.Type(s[i+1:]).Type()
		if ptr {
			t = types.NewPointer(t)
		}
		out = append(out, t)
	}
	if e.lazyIface == nil {
		e.lazyIface = map[string][]types.Type{}
	}
	e.lazyIface[key] = out
	return out, true
}

// ifaceCandidatesByType: defaults by static interface type.
func (e *Exec) ifaceCandidatesByType(t types.Type) ([]types.Type, bool) {
	lookup := func(pkg, name string, ptr bool) types.Type {
		p := e.findPkg(pkg)
		if p == nil || p.Type(name) == nil {
			return nil
		}
		var t types.Type = p.Type(name).Type()
		if ptr {
			t = types.NewPointer(t)
		}
		return t
	}
	switch {
	case types.Identical(t, types.Universe.Lookup("error").Type()):
		if es := lookup("errors", "errorString", true); es != nil {
			return []types.Type{es, nil}, true
		}
	case namedOf(t) == "crypto/elliptic.Curve":
		// the named curves answer Params() with their parameter block; an arbitrary parameter block stands for them
		if cp := lookup("crypto/elliptic", "CurveParams", true); cp != nil {
			return []types.Type{cp}, true
		}
	default:
		if it, ok := t.Underlying().(*types.Interface); ok && it.Empty() {
			// attribute values decoded by encoding/asn1 are strings for every string type
			return []types.Type{types.Typ[types.String], nil}, true
		}
	}
	return nil, false
}

// ifaceChosen adds the parser invariant tied to the choice of candidate i.
// P3: the dynamic type of Certificate.PublicKey is determined by
// PublicKeyAlgorithm (zcrypto x509.go parsePublicKey: RSA=1 -> *rsa.PublicKey,
// DSA=2 -> *dsa.PublicKey, ECDSA=3 -> *AugmentedECDSA, Ed25519=4, X25519=5,
// anything else -> nil).
func (e *Exec) ifaceChosen(name string, i int) {
	if !strings.HasSuffix(name, ".PublicKey") {
		return
	}
	root := strings.TrimSuffix(name, ".PublicKey")
	alg := quoteSym(root + ".PublicKeyAlgorithm")
	e.declareInput(alg, "(_ BitVec 64)")
	if i < 5 {
		e.assume(fmt.Sprintf("(= %s (_ bv%d 64))", alg, i+1))
	} else {
		e.assume(fmt.Sprintf("(or (= %s (_ bv0 64)) (bvugt %s (_ bv5 64)))", alg, alg))
	}
}
