package main

// Pure-callee merging: a call that writes nothing that existed before it,
// cannot panic and returns scalars is explored once as a sub-tree and replaced
// by one ite-term over its (path condition, result) pairs.  The summary is
// cached per (function, argument terms), so re-executions of a path prefix and
// repeated calls cost nothing.

import (
	"fmt"
	"os"
	"strings"

	"golang.org/x/tools/go/ssa"
)

type mergeAbort struct{ why string }

type summary struct {
	ok     bool
	decls  []string // "name\x00(declare-...)"
	syms   []symInfo
	defs   []string // guarded definitional assertions
	result Value
	paths  int
}

// valKey renders the content of an argument that a callee may read.
func (e *Exec) valKey(v Value, sb *strings.Builder, budget *int) bool {
	*budget--
	if *budget < 0 {
		return false
	}
	v = e.force(v)
	switch x := v.(type) {
	case nil:
		sb.WriteString("nil;")
	case *BV:
		sb.WriteString(x.T + ";")
	case *BoolV:
		sb.WriteString(x.T + ";")
	case *StrV:
		sb.WriteString(x.T + ";")
	case *BigV:
		sb.WriteString(x.T + ";")
	case *StructV:
		sb.WriteString("{")
		for _, f := range x.F {
			if !e.valKey(f, sb, budget) {
				return false
			}
		}
		sb.WriteString("}")
	case *ArrayV:
		sb.WriteString("[")
		for _, f := range x.E {
			if !e.valKey(f, sb, budget) {
				return false
			}
		}
		sb.WriteString("]")
	case *SliceV:
		if x.O == nil {
			sb.WriteString("nilslice;")
			return true
		}
		sb.WriteString("sl(" + x.Len.T + "," + x.NilSym + ":")
		n := x.Cap
		if c, ok := concInt(x.Len); ok {
			n = int(c)
		}
		for i := 0; i < n; i++ {
			if !e.valKey(e.sliceElem(x, i), sb, budget) {
				return false
			}
		}
		sb.WriteString(")")
	case *PtrV:
		if x.O == nil {
			sb.WriteString("nilptr;")
			return true
		}
		sb.WriteString("&")
		return e.valKey(e.rawLoad(x), sb, budget)
	case *IfaceV:
		if x.T == nil {
			sb.WriteString("niliface;")
			return true
		}
		sb.WriteString("<" + x.T.String() + ">")
		return e.valKey(x.V, sb, budget)
	case *OpaqueV:
		sb.WriteString(fmt.Sprintf("opaque:%p;", x))
	default:
		return false
	}
	return true
}

func (e *Exec) mergeCall(fn *ssa.Function, args []Value, bind []Value) (Value, bool) {
	if e.mergeDepth > 0 {
		return nil, false // no nested summaries: the inner call is simply part of the outer sub-tree
	}
	var sb strings.Builder
	sb.WriteString(fn.String() + "|")
	budget := 200
	for _, a := range args {
		if !e.valKey(a, &sb, &budget) {
			return nil, false
		}
	}
	key := sb.String()
	sum, ok := e.summaries[key]
	if !ok {
		sum = e.buildSummary(fn, args, bind)
		e.summaries[key] = sum
	}
	if !sum.ok {
		return nil, false
	}
	for _, d := range sum.decls {
		parts := strings.SplitN(d, "\x00", 2)
		if !e.declared[parts[0]] {
			e.declared[parts[0]] = true
			e.send(parts[1])
			e.pcLines = append(e.pcLines, parts[1])
		}
	}
	for _, s := range sum.syms {
		found := false
		for _, x := range e.syms {
			if x.Name == s.Name {
				found = true
				break
			}
		}
		if !found {
			e.syms = append(e.syms, s)
		}
	}
	k := "sum#" + key
	if !e.declared[k] {
		e.declared[k] = true
		for _, d := range sum.defs {
			e.assume(d)
		}
	}
	e.stub(fmt.Sprintf("merged:%s(%d paths)", fn.String(), sum.paths))
	return sum.result, true
}

func (e *Exec) buildSummary(fn *ssa.Function, args []Value, bind []Value) (sum *summary) {
	sum = &summary{}
	// save exploration state
	sScript, sPos, sWork := e.script, e.pos, e.work
	sDepth, sSite, sPan := e.depth, e.curSite, e.panicking
	sNotes := e.notes
	e.mergeSeq++
	sPfx := e.freshPfx
	e.freshPfx = fmt.Sprintf("m%d.", e.mergeSeq)
	e.mergeDepth++
	e.mergeEpoch = e.objSeq
	// the summary is cached and reused under other path conditions, so no
	// sub-path may be pruned because it is infeasible under the current one
	sLazy, sUnchecked := e.cfg.LazyFeas, e.lazyUnchecked
	e.cfg.LazyFeas = true
	defer func() { e.cfg.LazyFeas, e.lazyUnchecked = sLazy, sUnchecked }()
	pcMark := len(e.pcLines)
	symMark := len(e.syms)
	memo := make(map[string]Value, len(e.lazyMemo))
	for k, v := range e.lazyMemo {
		memo[k] = v
	}
	declBefore := make(map[string]bool, len(e.declared))
	for k := range e.declared {
		declBefore[k] = true
	}
	defer func() {
		e.lazyMemo = memo
		e.declared = declBefore
		e.script, e.pos, e.work = sScript, sPos, sWork
		e.depth, e.curSite, e.panicking = sDepth, sSite, sPan
		e.notes = sNotes
		e.freshPfx = sPfx
		e.mergeDepth--
		e.pcLines = e.pcLines[:pcMark]
		e.syms = e.syms[:symMark]
	}()
	type pr struct {
		cond string
		res  Value
	}
	var prs []pr
	var allDecls []string
	var allSyms []symInfo
	var allDefs []string
	work := [][]bool{{}}
	aborted := false
	for len(work) > 0 && !aborted {
		if len(prs) > 600 {
			aborted = true
			break
		}
		e.script = work[len(work)-1]
		work = work[:len(work)-1]
		e.pos = 0
		e.work = nil
		e.mergeConds, e.mergeDefs, e.mergeDecls, e.mergeSyms = nil, nil, nil, nil
		e.lazyMemo = make(map[string]Value, len(memo))
		for k, v := range memo {
			e.lazyMemo[k] = v
		}
		e.declared = make(map[string]bool, len(declBefore))
		for k := range declBefore {
			e.declared[k] = true
		}
		e.send("(push 1)")
		declSnapshot := map[string]bool{}
		var res Value
		func() {
			defer func() {
				if r := recover(); r != nil {
					switch r.(type) {
					case pathEnd, goPanic, mergeAbort:
						if pe, ok := r.(pathEnd); ok && pe.kind == "infeasible" {
							res = nil
							return
						}
						aborted = true
						if os.Getenv("SYMGO_MERGEDEBUG") != "" {
							fmt.Fprintf(os.Stderr, "merge of %s aborted: %v\n", fn.String(), r)
						}
					default:
						panic(r)
					}
				}
			}()
			e.notes = map[string]string{}
			res = e.callNoMerge(fn, args, bind)
		}()
		e.send("(pop 1)")
		_ = declSnapshot
		e.pcLines = e.pcLines[:pcMark]
		e.syms = e.syms[:symMark]
		work = append(work, e.work...)
		if aborted {
			break
		}
		if res == nil && fn.Signature.Results().Len() > 0 {
			continue // infeasible nested path
		}
		cond := "true"
		if len(e.mergeConds) == 1 {
			cond = e.mergeConds[0]
		} else if len(e.mergeConds) > 1 {
			cond = "(and " + strings.Join(e.mergeConds, " ") + ")"
		}
		prs = append(prs, pr{cond, res})
		allDecls = append(allDecls, e.mergeDecls...)
		allSyms = append(allSyms, e.mergeSyms...)
		for _, d := range e.mergeDefs {
			allDefs = append(allDefs, "(=> "+cond+" "+d+")")
		}
	}
	if aborted || len(prs) == 0 {
		return sum
	}
	res := prs[len(prs)-1].res
	for i := len(prs) - 2; i >= 0; i-- {
		v, ok := e.ite(&BoolV{T: prs[i].cond}, prs[i].res, res)
		if !ok {
			return sum
		}
		res = v
	}
	// dedupe declarations
	seen := map[string]bool{}
	for _, d := range allDecls {
		if !seen[d] {
			seen[d] = true
			sum.decls = append(sum.decls, d)
		}
	}
	seenS := map[string]bool{}
	for _, s := range allSyms {
		if !seenS[s.Name] {
			seenS[s.Name] = true
			sum.syms = append(sum.syms, s)
		}
	}
	sum.defs = allDefs
	sum.result = res
	sum.paths = len(prs)
	sum.ok = true
	return sum
}

// callNoMerge runs the body of fn (the merge hook is skipped because mergeDepth > 0).
func (e *Exec) callNoMerge(fn *ssa.Function, args []Value, bind []Value) Value {
	return e.call(fn, args, bind)
}
