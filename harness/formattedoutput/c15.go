package formattedoutput

import (
	"github.com/zmap/zlint/v3"
	"github.com/zmap/zlint/v3/lint"
	zz "github.com/zmap/zlint/v3/zzverif"
)

var c15Names = []string{"e_a", "w_b", "n_c", "e_d"}

// VerifC15Counts: the summary table counts equal the counts of the results.
func VerifC15Counts() {
	k := zz.Param("c15.k", 3)
	rs := &zlint.ResultSet{Results: map[string]*lint.LintResult{}}
	var sts []lint.LintStatus
	for i := 0; i < k; i++ {
		s := zz.Int()
		zz.Assume(s >= 1 && s <= 7)
		sts = append(sts, lint.LintStatus(s))
		rs.Results[c15Names[i]] = &lint.LintResult{Status: lint.LintStatus(s)}
	}
	long := zz.Bool()
	// history: the tool prints one table per input file (and per summary flag), so an arbitrary earlier
	// table - other results, other flag - may have been built in the same process
	if zz.Param("c15.hist", 0) > 0 {
		zz.Cover("after an earlier table")
		prev := &zlint.ResultSet{Results: map[string]*lint.LintResult{}}
		for i := 0; i < zz.Param("c15.hist", 0); i++ {
			s := zz.Int()
			zz.Assume(s >= 1 && s <= 7)
			prev.Results[c15Names[i]] = &lint.LintResult{Status: lint.LintStatus(s)}
		}
		(&resultsTable{}).newRT(lint.Pass, prev, zz.Bool())
	}
	rt := (&resultsTable{}).newRT(lint.Pass, rs, long)
	for _, level := range []lint.LintStatus{lint.Notice, lint.Warn, lint.Error, lint.Fatal} {
		n := 0
		for _, s := range sts {
			if s == level {
				n++
			}
		}
		got, present := rt.resultCount[level]
		zz.Assert(present, "every level above pass has a row in the summary")
		zz.Assert(got == n, "the count shown for a level equals the number of results with that status")
		if long {
			zz.Assert(len(rt.resultDetails[level]) == n, "the long summary names exactly the lints with that status")
		}
	}
	zz.Assert(len(rt.resultCount) == 4 && len(rt.sortedLevels) == 4, "the summary has exactly the four levels above pass")
	for i := 0; i+1 < len(rt.sortedLevels); i++ {
		zz.Assert(rt.sortedLevels[i] < rt.sortedLevels[i+1], "the levels are listed in ascending order")
	}
	zz.Cover("summary")
}
