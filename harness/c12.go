package zlint

import (
	"sort"
	"strconv"
	"strings"

	"github.com/zmap/zlint/v3/lint"
	zz "github.com/zmap/zlint/v3/zzverif"
)

func c12Meta(m lint.LintMetadata, declared []string, implNonNil, instNonNil bool) {
	n := m.Name
	zz.Assert(n != "" && n == strings.ToLower(n), "every lint has a non-empty lower-case name")
	pfx := 0
	for _, p := range []string{"e_", "w_", "n_"} {
		if strings.HasPrefix(n, p) {
			pfx++
		}
	}
	zz.Assert(pfx == 1, "every lint name carries exactly one of the prefixes e_, w_, n_")
	zz.Assert(m.Description != "", "every lint has a description")
	known := false
	for _, d := range declared {
		if d == string(m.Source) && m.Source != lint.UnknownLintSource {
			known = true
		}
	}
	zz.Assert(known, "every lint has a declared, known source")
	// known to the library, not just declared: the source parser maps the label back to the same source
	var parsed lint.LintSource
	parsed.FromString(string(m.Source))
	zz.Assert(parsed == m.Source, "every lint's source is one the library's source parser knows")
	var dec lint.LintSource
	zz.Assert(dec.UnmarshalJSON([]byte("\""+string(m.Source)+"\"")) == nil && dec == m.Source, "every lint's source decodes from its JSON form")
	zz.Assert(implNonNil, "every lint has a non-nil constructor")
	zz.Assert(instNonNil, "every lint constructor yields an implementation")
	if !m.EffectiveDate.IsZero() && !m.IneffectiveDate.IsZero() {
		zz.Assert(m.EffectiveDate.Before(m.IneffectiveDate), "an effective date precedes the ineffective date when both are set")
	}
}

// VerifC12Registry: the registry the init chain builds (executed by the engine
// from the SSA of /repo's current source) is well formed and self-consistent.
func VerifC12Registry() {
	r := lint.GlobalRegistry()
	declared := zz.NamedConsts("github.com/zmap/zlint/v3/lint", "LintSource")
	seen := map[string]int{}
	nc, nr, no := 0, 0, 0
	srcs := map[lint.LintSource]bool{}
	for _, l := range r.CertificateLints().Lints() {
		nc++
		seen[l.Name]++
		srcs[l.Source] = true
		c12Meta(l.LintMetadata, declared, l.Lint != nil, l.Lint != nil && l.Lint() != nil)
		zz.Assert(r.CertificateLints().ByName(l.Name) == l, "lookup by name finds every listed certificate lint")
		in := false
		for _, x := range r.CertificateLints().BySource(l.Source) {
			if x == l {
				in = true
			}
		}
		zz.Assert(in, "lookup by source finds every listed certificate lint")
	}
	for _, l := range r.RevocationListLints().Lints() {
		nr++
		seen[l.Name]++
		srcs[l.Source] = true
		c12Meta(l.LintMetadata, declared, l.Lint != nil, l.Lint != nil && l.Lint() != nil)
		zz.Assert(r.RevocationListLints().ByName(l.Name) == l, "lookup by name finds every listed CRL lint")
		in := false
		for _, x := range r.RevocationListLints().BySource(l.Source) {
			if x == l {
				in = true
			}
		}
		zz.Assert(in, "lookup by source finds every listed CRL lint")
	}
	for _, l := range r.OcspResponseLints().Lints() {
		no++
		seen[l.Name]++
		srcs[l.Source] = true
		c12Meta(l.LintMetadata, declared, l.Lint != nil, l.Lint != nil && l.Lint() != nil)
		zz.Assert(r.OcspResponseLints().ByName(l.Name) == l, "lookup by name finds every listed OCSP lint")
		in := false
		for _, x := range r.OcspResponseLints().BySource(l.Source) {
			if x == l {
				in = true
			}
		}
		zz.Assert(in, "lookup by source finds every listed OCSP lint")
	}
	names := r.Names()
	zz.Assert(len(names) == nc+nr+no, "the name list has one entry per registered lint of any kind")
	zz.Assert(sort.StringsAreSorted(names), "the name list is sorted")
	for _, n := range names {
		zz.Assert(seen[n] == 1, "lint names are unique across certificate, CRL and OCSP lints")
	}
	zz.Assert(len(seen) == len(names), "every listed lint is in the name list")
	ls := r.Sources()
	zz.Assert(len(ls) == len(srcs), "the source list has one entry per source in use")
	for _, s := range ls {
		zz.Assert(srcs[s], "every listed source is the source of some lint")
	}
	zz.Note("certificate_lints", strconv.Itoa(nc))
	zz.Note("crl_lints", strconv.Itoa(nr))
	zz.Note("ocsp_lints", strconv.Itoa(no))
	zz.Cover("registry")
}
