package zlint

import (
	"bytes"
	"time"

	"github.com/zmap/zcrypto/encoding/asn1"

	"github.com/zmap/zcrypto/x509"
	"github.com/zmap/zlint/v3/lint"
	"github.com/zmap/zlint/v3/util"
	zz "github.com/zmap/zlint/v3/zzverif"
)

var c20DNSPool = []string{"www.example.com", "www.example.com.", "a..b.example.com", ".example.com", "example.com..", "a.-example.com", "x_y.example.com", "x.a_b.com", "*.example.com", "xn--a.example.com", "aaaaaaaaaaaaaaaaaaaaaaaaaaaaaaaaaaaaaaaaaaaaaaaaaaaaaaaaaaaaaaaaa.example.com"}
var c20AIAPool = []string{"http://ocsp.example.com/", "http://192.0.2.7:8080/ocsp", "http://[2001:db8::1]/ca.cer", "http://localhost/", "http://10.0.0.1/x", "http://ca.example.invalidtld/", "ldap://directory.example.com/cn=x"}

func c20Finding(s lint.LintStatus) bool {
	return s == lint.Notice || s == lint.Warn || s == lint.Error
}

// VerifC20Pair: two lints that implement the same requirement are run on one
// arbitrary certificate constrained to "same content" for the pair's kind.
//
//	same    : equal status
//	finding : finding <=> finding (the two deliberately differ in severity)
//	implies : an error from the first comes with a finding from the second
func VerifC20Pair() {
	na, nb := zz.ParamStr("c20.a", ""), zz.ParamStr("c20.b", "")
	kind, rel := zz.ParamStr("c20.kind", "plain"), zz.ParamStr("c20.rel", "same")
	la := lint.GlobalRegistry().CertificateLints().ByName(na)
	lb := lint.GlobalRegistry().CertificateLints().ByName(nb)
	zz.Assert(la != nil && lb != nil, "both lints of the pair are registered")
	if la == nil || lb == nil {
		return
	}
	c := zz.Lazy[x509.Certificate]("c")
	switch kind {
	case "sanian":
		// same names in subjectAltName and issuerAltName, both extensions present with the same value
		c.IANDNSNames, c.IANEmailAddresses, c.IANURIs, c.IANIPAddresses = c.DNSNames, c.EmailAddresses, c.URIs, c.IPAddresses
		c.IANOtherNames, c.IANDirectoryNames, c.IANEDIPartyNames, c.IANRegisteredIDs = c.OtherNames, c.DirectoryNames, c.EDIPartyNames, c.RegisteredIDs
		san, ian := util.GetExtFromCert(c, util.SubjectAlternateNameOID), util.GetExtFromCert(c, util.IssuerAlternateNameOID)
		zz.Assume(san != nil && ian != nil)
		zz.Assume(bytes.Equal(san.Value, ian.Value) && san.Critical == ian.Critical)
	case "subjiss":
		c.Issuer = c.Subject
		c.RawIssuer = c.RawSubject
	case "dnsrfc":
		// the BR copy also judges the common name: it is empty here (what the BRs ask of it is to repeat a SAN entry)
		c.Subject.CommonName = ""
		zz.Assume(utilIsServerAuth(c))
	case "aia":
		zz.Assume(utilIsServerAuth(c))
		zz.Assume(utilIsEmail(c))
	case "br":
		zz.Assume(utilIsServerAuth(c))
	}
	if zz.Param("c20.pool", 0) > 0 {
		// replayable variant: the content the pair judges is drawn from a concrete pool, everything else is fixed
		// (a subscriber certificate issued in 2024, in the scope of both documents); stubbed parsers are then
		// evaluated by the real library
		c.IsCA, c.SelfSigned, c.BasicConstraintsValid = false, false, false
		c.NotBefore = time.Date(2024, 3, 1, 0, 0, 0, 0, time.UTC)
		c.NotAfter = time.Date(2024, 9, 1, 0, 0, 0, 0, time.UTC)
		c.UnknownExtKeyUsage = nil
		c.IPAddresses, c.URIs = nil, nil
		c.IANDNSNames, c.IANEmailAddresses, c.IANURIs, c.IANIPAddresses = nil, nil, nil, nil
		c.Subject.CommonName = ""
		i, j := zz.Int(), zz.Int()
		switch kind {
		case "dnsrfc":
			zz.Assume(i >= 0 && i < len(c20DNSPool) && j >= 0 && j < len(c20DNSPool))
			c.ExtKeyUsage, c.PolicyIdentifiers, c.EmailAddresses = nil, nil, nil
			c.DNSNames = []string{c20DNSPool[i], c20DNSPool[j]}
		case "aia":
			zz.Assume(i >= 0 && i < len(c20AIAPool) && j >= 0 && j < len(c20AIAPool))
			c.ExtKeyUsage = []x509.ExtKeyUsage{x509.ExtKeyUsageServerAuth, x509.ExtKeyUsageEmailProtection}
			c.PolicyIdentifiers = []asn1.ObjectIdentifier{util.SMIMEBRMailboxValidatedLegacyOID}
			c.EmailAddresses = []string{"a@example.com"}
			c.DNSNames = nil
			c.OCSPServer = []string{c20AIAPool[i]}
			c.IssuingCertificateURL = []string{c20AIAPool[j]}
		}
	}
	c = zz.Realise(c)
	cfg := lint.NewEmptyConfig()
	ra := la.Execute(c, cfg)
	rb := lb.Execute(c, cfg)
	zz.Assert(ra != nil && rb != nil, "both lints return a result")
	if ra == nil || rb == nil {
		return
	}
	// "whenever both run": both applicable and inside their windows
	zz.Assume(ra.Status != lint.NA && ra.Status != lint.NE && rb.Status != lint.NA && rb.Status != lint.NE)
	zz.Cover("both run")
	switch rel {
	case "same":
		zz.Assert(ra.Status == rb.Status, "the two implementations of the rule report the same status")
	case "finding":
		zz.Assert(c20Finding(ra.Status) == c20Finding(rb.Status), "the two implementations of the rule agree on finding versus no finding")
	case "implies":
		if ra.Status == lint.Error {
			zz.Cover("strict limit exceeded")
			zz.Assert(c20Finding(rb.Status), "an error from the limit comes with a finding from its stricter companion")
		}
	}
}
