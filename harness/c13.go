package zlint

import (
	"encoding/json"

	"github.com/zmap/zlint/v3/lint"
	zz "github.com/zmap/zlint/v3/zzverif"
)

// VerifC13RealRegistry (concrete, the registry built by the init chain): every
// listed source is accepted by the source-list parser and by the JSON decoder,
// and every lint named by a registered profile exists.
func VerifC13RealRegistry() {
	r := lint.GlobalRegistry()
	for _, s := range r.Sources() {
		var l lint.SourceList
		zz.Assert(l.FromString(string(s)) == nil && len(l) == 1 && l[0] == s, "every source the registry lists is accepted by the source-list parser")
		var back lint.LintSource
		b, _ := json.Marshal(string(s))
		zz.Assert(back.UnmarshalJSON(b) == nil && back == s, "every source the registry lists survives a JSON round trip")
	}
	known := map[string]bool{}
	for _, n := range r.Names() {
		known[n] = true
	}
	for _, p := range lint.AllProfiles() {
		for _, n := range p.LintNames {
			zz.Assert(known[n], "every lint named by a registered profile exists")
		}
	}
	zz.Cover("real registry")
}
