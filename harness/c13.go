package zlint

import (
	"encoding/json"

	"github.com/zmap/zlint/v3/lint"
	zz "github.com/zmap/zlint/v3/zzverif"
)

// VerifC13RealRegistry (concrete, the registry built by the init chain): every
// listed source is accepted by the source-list parser and by the JSON decoder,
// and every lint named by a registered profile exists.
func VerifC13RealRegistry() {
	r := lint.GlobalRegistry()
	for _, s := range r.Sources() {
		var l lint.SourceList
		zz.Assert(l.FromString(string(s)) == nil && len(l) == 1 && l[0] == s, "every source the registry lists is accepted by the source-list parser")
		var back lint.LintSource
		b, _ := json.Marshal(string(s))
		zz.Assert(back.UnmarshalJSON(b) == nil && back == s, "every source the registry lists survives a JSON round trip")
	}
	// ... and by the filter: one Filter per listed source (its lints of every kind come back), and all listed
	// names at once as include names and as exclude names (an error for any one of them would surface)
	for _, s := range r.Sources() {
		fr, err := r.Filter(lint.FilterOptions{IncludeSources: lint.SourceList{s}})
		zz.Assert(err == nil && fr != nil, "every source the registry lists is accepted as an include source")
		if err == nil && fr != nil {
			n := len(r.CertificateLints().BySource(s)) + len(r.RevocationListLints().BySource(s)) + len(r.OcspResponseLints().BySource(s))
			zz.Assert(len(fr.Names()) == n && n > 0, "filtering by a listed source selects exactly that source's lints of every kind")
		}
		_, err = r.Filter(lint.FilterOptions{ExcludeSources: lint.SourceList{s}})
		zz.Assert(err == nil, "every source the registry lists is accepted as an exclude source")
	}
	all := r.Names()
	fr, err := r.Filter(lint.FilterOptions{IncludeNames: all})
	zz.Assert(err == nil && fr != nil && len(fr.Names()) == len(all), "every lint name the registry lists is accepted as an include name")
	fr, err = r.Filter(lint.FilterOptions{ExcludeNames: all})
	zz.Assert(err == nil && fr != nil && len(fr.Names()) == 0, "every lint name the registry lists is accepted as an exclude name")
	known := map[string]bool{}
	for _, n := range r.Names() {
		known[n] = true
	}
	for _, p := range lint.AllProfiles() {
		for _, n := range p.LintNames {
			zz.Assert(known[n], "every lint named by a registered profile exists")
		}
	}
	zz.Cover("real registry")
}
