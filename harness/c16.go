package zlint

import (
	"crypto/rsa"
	"math/big"

	"github.com/zmap/zcrypto/x509"
	"github.com/zmap/zlint/v3/lint"
	"github.com/zmap/zlint/v3/util"
	zz "github.com/zmap/zlint/v3/zzverif"
)

// c16Key returns an arbitrary certificate carrying an arbitrary RSA key the
// parser accepts (P3: N > 0, E > 0, PublicKeyAlgorithm == RSA).
func c16Key() (*x509.Certificate, *rsa.PublicKey) {
	c := zz.Lazy[x509.Certificate]("c")
	key, ok := c.PublicKey.(*rsa.PublicKey)
	zz.Assume(ok)
	zz.Assume(key.N.Sign() > 0)
	zz.Assume(key.E > 0)
	return c, key
}

// c16Run executes the registered lint the way the framework does after the
// scope/window gates: fresh instance, CheckApplies, Execute.
func c16Run(name string, c *x509.Certificate) (bool, lint.LintStatus) {
	l := lint.GlobalRegistry().CertificateLints().ByName(name)
	zz.Assert(l != nil, "the RSA key-quality lint is registered under its name")
	if l == nil {
		return false, lint.NA
	}
	li := l.Lint()
	if !li.CheckApplies(c) {
		return false, lint.NA
	}
	zz.Cover("applies")
	return true, li.Execute(c).Status
}

func c16Pow2(k int) *big.Int { return new(big.Int).Lsh(big.NewInt(1), uint(k)) }

// VerifC16MinLength: the minimum-length lints report exactly when N < 2^(min-1),
// i.e. when the modulus is shorter than min bits.
func VerifC16MinLength() {
	name := zz.ParamStr("c16.lint", "e_rsa_mod_less_than_2048_bits")
	min := zz.Param("c16.min", 2048)
	c, key := c16Key()
	applies, st := c16Run(name, c)
	if !applies {
		return
	}
	short := key.N.Cmp(c16Pow2(min-1)) < 0
	if short {
		zz.Cover("short modulus")
		zz.Assert(st == lint.Error, "a modulus shorter than the stated minimum is reported as an error")
	} else {
		zz.Cover("long enough")
		zz.Assert(st == lint.Pass, "a modulus of at least the stated minimum length passes")
	}
}

// VerifC16DivisibleBy8: for every bit length b inside the windows around the
// common key sizes, the lint reports exactly when b is not a multiple of 8.
func VerifC16DivisibleBy8() {
	c, key := c16Key()
	lo := zz.Param("c16.lo", 2040)
	hi := zz.Param("c16.hi", 2057)
	b := zz.Int()
	zz.Assume(b >= lo && b <= hi)
	// bit length of N is exactly b
	for k := lo; k <= hi; k++ {
		if b == k {
			zz.Assume(key.N.Cmp(c16Pow2(k-1)) >= 0 && key.N.Cmp(c16Pow2(k)) < 0)
		}
	}
	applies, st := c16Run("e_mp_modulus_must_be_divisible_by_8", c)
	if !applies {
		return
	}
	if b%8 != 0 {
		zz.Cover("not a multiple of 8")
		zz.Assert(st == lint.Error, "a bit length that is not a multiple of 8 is reported")
	} else {
		zz.Cover("multiple of 8")
		zz.Assert(st == lint.Pass, "a bit length that is a multiple of 8 passes")
	}
}

// VerifC16ModulusParity: even modulus <=> warning.
func VerifC16ModulusParity() {
	c, key := c16Key()
	applies, st := c16Run("w_rsa_mod_not_odd", c)
	if !applies {
		return
	}
	even := new(big.Int).Mod(key.N, big.NewInt(2)).Sign() == 0
	if even {
		zz.Cover("even modulus")
		zz.Assert(st == lint.Warn, "an even modulus is reported")
	} else {
		zz.Cover("odd modulus")
		zz.Assert(st == lint.Pass, "an odd modulus passes")
	}
}

// VerifC16Exponent: the four exponent lints against their arithmetic predicates.
func VerifC16Exponent() {
	c, key := c16Key()
	e := key.E
	if applies, st := c16Run("e_rsa_public_exponent_not_odd", c); applies {
		if e%2 == 0 {
			zz.Cover("even exponent")
			zz.Assert(st == lint.Error, "an even exponent is reported")
		} else {
			zz.Assert(st == lint.Pass, "an odd exponent passes the parity lint")
		}
	}
	if applies, st := c16Run("e_rsa_public_exponent_too_small", c); applies {
		if e < 3 {
			zz.Cover("exponent below 3")
			zz.Assert(st == lint.Error, "an exponent below 3 is reported")
		} else {
			zz.Assert(st == lint.Pass, "an exponent of at least 3 passes the minimum lint")
		}
	}
	if applies, st := c16Run("e_mp_exponent_cannot_be_one", c); applies {
		if e == 1 {
			zz.Cover("exponent one")
			zz.Assert(st == lint.Error, "an exponent equal to 1 is reported")
		} else {
			zz.Assert(st == lint.Pass, "an exponent other than 1 passes the not-one lint")
		}
	}
	if applies, st := c16Run("w_rsa_public_exponent_not_in_range", c); applies {
		if e < 65537 {
			zz.Cover("exponent below 65537")
			zz.Assert(st == lint.Warn, "an exponent below 65537 is reported")
		} else {
			zz.Cover("exponent in range")
			zz.Assert(st == lint.Pass, "an exponent of at least 65537 passes the range lint")
		}
	}
}

// VerifC16SmallFactorLint: the lint reports exactly what util.PrimeNoSmallerThan752
// decides about the certificate's modulus (the trial division itself is checked in package util).
func VerifC16SmallFactorLint() {
	c, key := c16Key()
	applies, st := c16Run("w_rsa_mod_factors_smaller_than_752", c)
	if !applies {
		return
	}
	if util.PrimeNoSmallerThan752(key.N) {
		zz.Cover("no small factor")
		zz.Assert(st == lint.Pass, "a modulus without a factor below 752 passes")
	} else {
		zz.Cover("small factor")
		zz.Assert(st == lint.Warn, "a modulus with a factor below 752 is reported")
	}
}
