package zlint

import (
	"strings"

	"github.com/zmap/zcrypto/x509"
	"github.com/zmap/zlint/v3/lint"
	zz "github.com/zmap/zlint/v3/zzverif"
	"golang.org/x/crypto/ocsp"
)

// The lint sweep: one registered lint (chosen by parameter) is run through the
// real framework entry on an arbitrary object of its kind; the assertions that
// are switched on depend on the property being checked (parameter sweep.prop).

func sweepSeverityOK(name string, st lint.LintStatus) bool {
	switch {
	case strings.HasPrefix(name, "e_"):
		return st != lint.Warn && st != lint.Notice
	case strings.HasPrefix(name, "w_"):
		return st != lint.Error && st != lint.Notice
	case strings.HasPrefix(name, "n_"):
		return st != lint.Warn && st != lint.Error
	}
	return false
}

func sweepAsserts(name string, res *lint.LintResult) {
	prop := zz.ParamStr("sweep.prop", "C06")
	zz.Assert(res != nil, "the lint returns a result")
	if res == nil {
		return
	}
	zz.Cover("result")
	switch prop {
	case "C06":
		zz.Assert(sweepSeverityOK(name, res.Status), "the reported severity matches the lint's name prefix")
	case "C01":
		zz.Assert(res.Status >= lint.NA && res.Status <= lint.Fatal, "the status is one of the seven defined statuses")
	case "C02":
		zz.Assert(!(res.Status == lint.Fatal && strings.Contains(res.Details, "panicked")), "no result is the framework's report of a recovered panic")
	}
}

func VerifSweepCert() {
	name := zz.ParamStr("sweep.lint", "e_rsa_mod_less_than_2048_bits")
	l := lint.GlobalRegistry().CertificateLints().ByName(name)
	zz.Assert(l != nil, "the lint is registered")
	if l == nil {
		return
	}
	c := zz.Lazy[x509.Certificate]("c")
	if zz.ParamStr("sweep.prop", "C06") == "C09" {
		// the property is about certificates whose issuer differs from the subject; the parser sets SelfSigned only for self-issued ones (P2)
		zz.Assume(!c.SelfSigned)
	}
	if zz.ParamStr("sweep.prop", "C06") == "C06" {
		// the property quantifies over return paths of the lint's code: a struct-level witness counts
		c = zz.RealiseOr(c)
	} else {
		c = zz.Realise(c)
	}
	cfg := lint.NewEmptyConfig()
	zz.SetMapOrder("")
	zz.MonitorStart()
	res := l.Execute(c, cfg)
	zz.MonitorStop()
	sweepAsserts(name, res)
	if zz.ParamStr("sweep.prop", "C06") == "C05" && res != nil {
		// determinism: the same call under other map iteration orders
		orders := []string{"reverse", "rot"}
		if zz.Replaying() {
			// natively Go randomises map iteration by itself: repeat the call often enough to see another order
			for k := 0; k < 62; k++ {
				orders = append(orders, "")
			}
		}
		for _, o := range orders {
			zz.SetMapOrder(o)
			again := l.Execute(c, cfg)
			zz.SetMapOrder("")
			zz.Assert(again != nil && again.Status == res.Status, "the status does not depend on map iteration order")
			if again != nil {
				zz.Assert(again.Details == res.Details, "the details text does not depend on map iteration order")
			}
		}
	}
}

func VerifSweepCRL() {
	name := zz.ParamStr("sweep.lint", "")
	l := lint.GlobalRegistry().RevocationListLints().ByName(name)
	zz.Assert(l != nil, "the lint is registered")
	if l == nil {
		return
	}
	c := zz.Lazy[x509.RevocationList]("crl")
	if zz.ParamStr("sweep.prop", "C06") == "C06" {
		c = zz.RealiseCRLOr(c)
	} else {
		c = zz.RealiseCRL(c)
	}
	cfg := lint.NewEmptyConfig()
	zz.MonitorStart()
	res := l.Execute(c, cfg)
	zz.MonitorStop()
	sweepAsserts(name, res)
}

func VerifSweepOCSP() {
	name := zz.ParamStr("sweep.lint", "")
	l := lint.GlobalRegistry().OcspResponseLints().ByName(name)
	zz.Assert(l != nil, "the lint is registered")
	if l == nil {
		return
	}
	c := zz.Lazy[ocsp.Response]("ocsp")
	cfg := lint.NewEmptyConfig()
	zz.MonitorStart()
	res := l.Execute(c, cfg)
	zz.MonitorStop()
	sweepAsserts(name, res)
}

// VerifC09Entry: the library entry point itself (result-set construction,
// registry selection, anything it may memoise) on a certificate that is not
// self-signed, with the global registry - which is empty in this job, because
// only package lint's initialisers are run - so that what is observed is the
// entry point's own use of the certificate.  Checked by taint like the lints.
func VerifC09Entry() {
	c := zz.Lazy[x509.Certificate]("c")
	zz.Assume(!c.SelfSigned)
	c = zz.Realise(c)
	rs := LintCertificateEx(c, nil)
	zz.Assert(rs != nil, "the entry point returns a result set")
	rs2 := LintCertificateEx(c, lint.GlobalRegistry())
	zz.Assert(rs2 != nil, "the entry point returns a result set")
	zz.Cover("result")
}
