package zlint

import (
	"strings"

	"github.com/zmap/zlint/v3/lint"
	zz "github.com/zmap/zlint/v3/zzverif"
)

// Configuration documents the harness chooses from.  "e_cfg_a" is the
// configurable stub under test, "e_cfg_b" a second configurable stub and
// "e_plain" a lint that is not configurable.
var c11Docs = []struct {
	doc    string
	class  string // same | set | bad
	rounds int
	skip   bool
}{
	{"", "same", 100, false},
	{"[other]\nx = 1\n", "same", 100, false},
	{"[e_cfg_b]\nRounds = 5\n", "same", 100, false},
	{"[e_cfg_a]\nUnknownKey = 1\n", "same", 100, false},
	{"[e_cfg_a]\nRounds = 7\n", "set", 7, false},
	{"[e_cfg_a]\nSkip = true\nRounds = 3\n[e_cfg_b]\nRounds = 5\n", "set", 3, true},
	{"[e_cfg_a]\nRounds = \"seven\"\n", "bad", 0, false},
	{"[e_cfg_a]\nRounds = 1.5\n", "bad", 0, false},
	{"e_cfg_a = 5\n", "bad", 0, false},
	{"e_cfg_a = \"x\"\n", "bad", 0, false},
	{"e_cfg_a = [1, 2]\n", "bad", 0, false},
	{"[[e_cfg_a]]\nRounds = 1\n", "bad", 0, false},
}

func c11Registry(kind int, applies bool) lint.Registry {
	lint.ZZReset()
	r := lint.ZZNewRegistry()
	lint.ZZAddConfigurable(r, kind, 0, "e_cfg_a")
	lint.ZZAddConfigurable(r, kind, 1, "e_cfg_b")
	st := lint.ZZAdd(r, kind, 2, "e_plain", lint.RFC5280, zeroTime, zeroTime)
	_ = st
	lint.ZZSetBehaviour(2, true, false, lint.Warn, "plain")
	lint.ZZSetBehaviour(0, applies, false, lint.Pass, "")
	lint.ZZForget()
	return r
}

// VerifC11Config: for every document of the pool and every kind of lint.
func VerifC11Config() {
	kind := zz.Param("fw.kind", 0)
	di := zz.Int()
	zz.Assume(di >= 0 && di < len(c11Docs))
	d := c11Docs[di]
	cfg, err := lint.NewConfigFromString(d.doc)
	zz.Assert(err == nil, "the document is valid TOML")
	// whether the configurable lint's own applicability test accepts the object is arbitrary
	applies := zz.Bool()
	r := c11Registry(kind, true)
	obj := fwObject(kind)

	// run 1: the registry's initial (empty) configuration
	rs0 := fwRun(kind, obj, r)
	seen0, ran0 := lint.ZZSeen(0)
	zz.Assert(rs0 != nil && ran0 && seen0.Rounds == 100 && !seen0.Skip, "with no configuration the lint runs with its constructor defaults")
	lint.ZZForget()

	// run 2: after SetConfiguration
	lint.ZZSetBehaviour(0, applies, false, lint.Pass, "")
	r.SetConfiguration(cfg)
	rs := fwRun(kind, obj, r)
	zz.Assert(rs != nil, "linting returns")
	if rs == nil {
		return
	}
	a, b, p := rs.Results["e_cfg_a"], rs.Results["e_cfg_b"], rs.Results["e_plain"]
	zz.Assert(a != nil && b != nil && p != nil, "every lint has a result")
	if a == nil || b == nil || p == nil {
		return
	}
	seen, ran := lint.ZZSeen(0)
	switch {
	case d.class != "bad" && !applies:
		zz.Cover("configurable lint does not apply")
		zz.Assert(a.Status == lint.NA && !ran, "a well-configured lint that does not apply reports NA")
	case d.class == "same":
		zz.Cover("unrelated or empty configuration")
		zz.Assert(ran && seen.Rounds == 100 && !seen.Skip && a.Status == lint.Pass, "an empty configuration or one with only unrelated sections leaves the lint's behaviour unchanged")
	case d.class == "set":
		zz.Cover("option set")
		zz.Assert(ran && seen.Rounds == d.rounds && seen.Skip == d.skip && a.Status == lint.Pass, "setting the lint's options changes what the lint sees from the next run on")
	case d.class == "bad":
		zz.Cover("section cannot be applied")
		zz.Assert(a.Status == lint.Fatal, "a section that cannot be applied makes exactly that lint report fatal")
		zz.Assert(strings.Contains(a.Details, "A fatal error occurred while attempting to configure e_cfg_a"), "the fatal result carries the configuration error message")
		zz.Assert(!ran, "the rule body is not run with a configuration that could not be applied")
	}
	// nothing else changes
	zz.Assert(p.Status == lint.Warn && p.Details == "plain", "a lint that is not configurable is unaffected by any configuration")
	zz.Assert(lint.ZZConfigured(2) == 0, "a lint that is not configurable is never asked for a configuration target")
	sb, ranb := lint.ZZSeen(1)
	if strings.Contains(d.doc, "[e_cfg_b]") {
		zz.Assert(ranb && sb.Rounds == 5 && b.Status == lint.Pass, "another lint's own section is applied to it")
	} else {
		zz.Assert(ranb && sb.Rounds == 100 && !sb.Skip && b.Status == lint.Pass, "another configurable lint is unaffected by this lint's section")
	}

	// no leak between registries; filtered registries inherit
	lint.ZZForget()
	fr, ferr := r.Filter(lint.FilterOptions{IncludeNames: []string{"e_cfg_a"}})
	zz.Assert(ferr == nil && fr != nil && fr.GetConfiguration() == cfg, "a filtered registry inherits the configuration")
	fresh := c11Registry(kind, true)
	rs3 := fwRun(kind, obj, fresh)
	s3, ran3 := lint.ZZSeen(0)
	zz.Assert(rs3 != nil && ran3 && s3.Rounds == 100 && !s3.Skip, "configuration does not leak into another registry")

	// ... nor between runs: going back to an empty configuration restores the defaults
	lint.ZZForget()
	lint.ZZSetBehaviour(0, true, false, lint.Pass, "")
	r.SetConfiguration(lint.NewEmptyConfig())
	rs4 := fwRun(kind, obj, r)
	s4, ran4 := lint.ZZSeen(0)
	zz.Assert(rs4 != nil && ran4 && s4.Rounds == 100 && !s4.Skip, "replacing the configuration by an empty one restores the constructor defaults on the next run")
}

// VerifC04ConfigOrder: a configurable lint is configured first, on the fresh
// instance, and only then asked whether it applies; a configuration error ends
// the execution before the applicability test.
func VerifC04ConfigOrder() {
	kind := zz.Param("fw.kind", 0)
	di := zz.Int()
	zz.Assume(di >= 0 && di < len(c11Docs))
	d := c11Docs[di]
	cfg, err := lint.NewConfigFromString(d.doc)
	zz.Assert(err == nil, "the document is valid TOML")
	applies := zz.Bool()
	r := c11Registry(kind, applies)
	r.SetConfiguration(cfg)
	obj := fwObject(kind)
	lint.ZZForget()
	rs := fwRun(kind, obj, r)
	zz.Assert(rs != nil && rs.Results["e_cfg_a"] != nil, "the lint has a result")
	if rs == nil || rs.Results["e_cfg_a"] == nil {
		return
	}
	res := rs.Results["e_cfg_a"]
	ev := fwEvents(0)
	zz.Assert(len(ev) >= 1 && ev[0].What == "configure", "a configurable lint is configured before anything else is asked of it")
	asked := false
	for _, e := range ev {
		if e.What == "applies" || e.What == "execute" {
			asked = true
			zz.Assert(e.Inst == ev[0].Inst, "the configured instance is the one that is asked and run")
		}
	}
	if d.class == "bad" {
		zz.Cover("configuration error")
		zz.Assert(res.Status == lint.Fatal && !asked, "a configuration error ends the execution before the applicability test")
	} else if !applies {
		zz.Cover("configured, does not apply")
		zz.Assert(res.Status == lint.NA, "a configured lint that does not apply reports NA")
	} else {
		zz.Cover("configured and run")
		zz.Assert(res.Status == lint.Pass, "a configured, applicable lint reports its body's verdict")
	}
}
