package zlint

import (
	"strings"

	"github.com/zmap/zlint/v3/lint"
	zz "github.com/zmap/zlint/v3/zzverif"
)

// Configuration documents the harness chooses from.  "e_cfg_a" is the
// configurable stub under test, "e_cfg_b" a second configurable stub and
// "e_plain" a lint that is not configurable.
var c11Docs = []struct {
	doc    string
	class  string // same | set | bad
	rounds int
	skip   bool
}{
	{"", "same", 100, false},
	{"[other]\nx = 1\n", "same", 100, false},
	{"[e_cfg_b]\nRounds = 5\n", "same", 100, false},
	{"[e_cfg_a]\nUnknownKey = 1\n", "same", 100, false},
	{"[e_cfg_a]\nRounds = 7\n", "set", 7, false},
	{"[e_cfg_a]\nSkip = true\nRounds = 3\n[e_cfg_b]\nRounds = 5\n", "set", 3, true},
	{"[e_cfg_a]\nRounds = \"seven\"\n", "bad", 0, false},
	{"[e_cfg_a]\nRounds = 1.5\n", "bad", 0, false},
	{"e_cfg_a = 5\n", "bad", 0, false},
	{"e_cfg_a = \"x\"\n", "bad", 0, false},
	{"e_cfg_a = [1, 2]\n", "bad", 0, false},
	{"[[e_cfg_a]]\nRounds = 1\n", "bad", 0, false},
}

func c11Registry(kind int) lint.Registry {
	lint.ZZReset()
	r := lint.ZZNewRegistry()
	lint.ZZAddConfigurable(r, kind, 0, "e_cfg_a")
	lint.ZZAddConfigurable(r, kind, 1, "e_cfg_b")
	st := lint.ZZAdd(r, kind, 2, "e_plain", lint.RFC5280, zeroTime, zeroTime)
	_ = st
	lint.ZZSetBehaviour(2, true, false, lint.Warn, "plain")
	lint.ZZForget()
	return r
}

// VerifC11Config: for every document of the pool and every kind of lint.
func VerifC11Config() {
	kind := zz.Param("fw.kind", 0)
	di := zz.Int()
	zz.Assume(di >= 0 && di < len(c11Docs))
	d := c11Docs[di]
	cfg, err := lint.NewConfigFromString(d.doc)
	zz.Assert(err == nil, "the document is valid TOML")
	r := c11Registry(kind)
	obj := fwObject(kind)

	// run 1: the registry's initial (empty) configuration
	rs0 := fwRun(kind, obj, r)
	seen0, ran0 := lint.ZZSeen(0)
	zz.Assert(rs0 != nil && ran0 && seen0.Rounds == 100 && !seen0.Skip, "with no configuration the lint runs with its constructor defaults")
	lint.ZZForget()

	// run 2: after SetConfiguration
	r.SetConfiguration(cfg)
	rs := fwRun(kind, obj, r)
	zz.Assert(rs != nil, "linting returns")
	if rs == nil {
		return
	}
	a, b, p := rs.Results["e_cfg_a"], rs.Results["e_cfg_b"], rs.Results["e_plain"]
	zz.Assert(a != nil && b != nil && p != nil, "every lint has a result")
	if a == nil || b == nil || p == nil {
		return
	}
	seen, ran := lint.ZZSeen(0)
	switch d.class {
	case "same":
		zz.Cover("unrelated or empty configuration")
		zz.Assert(ran && seen.Rounds == 100 && !seen.Skip && a.Status == lint.Pass, "an empty configuration or one with only unrelated sections leaves the lint's behaviour unchanged")
	case "set":
		zz.Cover("option set")
		zz.Assert(ran && seen.Rounds == d.rounds && seen.Skip == d.skip && a.Status == lint.Pass, "setting the lint's options changes what the lint sees from the next run on")
	case "bad":
		zz.Cover("section cannot be applied")
		zz.Assert(a.Status == lint.Fatal, "a section that cannot be applied makes exactly that lint report fatal")
		zz.Assert(strings.Contains(a.Details, "A fatal error occurred while attempting to configure e_cfg_a"), "the fatal result carries the configuration error message")
		zz.Assert(!ran, "the rule body is not run with a configuration that could not be applied")
	}
	// nothing else changes
	zz.Assert(p.Status == lint.Warn && p.Details == "plain", "a lint that is not configurable is unaffected by any configuration")
	zz.Assert(lint.ZZConfigured(2) == 0, "a lint that is not configurable is never asked for a configuration target")
	sb, ranb := lint.ZZSeen(1)
	if strings.Contains(d.doc, "[e_cfg_b]") {
		zz.Assert(ranb && sb.Rounds == 5 && b.Status == lint.Pass, "another lint's own section is applied to it")
	} else {
		zz.Assert(ranb && sb.Rounds == 100 && !sb.Skip && b.Status == lint.Pass, "another configurable lint is unaffected by this lint's section")
	}

	// no leak between registries; filtered registries inherit
	lint.ZZForget()
	fr, ferr := r.Filter(lint.FilterOptions{IncludeNames: []string{"e_cfg_a"}})
	zz.Assert(ferr == nil && fr != nil && fr.GetConfiguration() == cfg, "a filtered registry inherits the configuration")
	fresh := c11Registry(kind)
	rs3 := fwRun(kind, obj, fresh)
	s3, ran3 := lint.ZZSeen(0)
	zz.Assert(rs3 != nil && ran3 && s3.Rounds == 100 && !s3.Skip, "configuration does not leak into another registry")
}
