package zlint

import (
	"strings"

	"github.com/zmap/zlint/v3/lint"
	zz "github.com/zmap/zlint/v3/zzverif"
)

// Configuration documents the harness chooses from.  "e_cfg_a" is the
// configurable stub under test, "e_cfg_b" a second configurable stub and
// "e_plain" a lint that is not configurable.
var c11Docs = []struct {
	doc    string
	class  string // same | set | bad
	rounds int
	skip   bool
}{
	{"", "same", 100, false},
	{"[other]\nx = 1\n", "same", 100, false},
	{"[e_cfg_b]\nRounds = 5\n", "same", 100, false},
	{"[e_cfg_a]\nUnknownKey = 1\n", "same", 100, false},
	{"[e_cfg_a]\nRounds = 7\n", "set", 7, false},
	{"[e_cfg_a]\nSkip = true\nRounds = 3\n[e_cfg_b]\nRounds = 5\n", "set", 3, true},
	{"[e_cfg_a]\nRounds = \"seven\"\n", "bad", 0, false},
	{"[e_cfg_a]\nRounds = 1.5\n", "bad", 0, false},
	{"e_cfg_a = 5\n", "bad", 0, false},
	{"e_cfg_a = \"x\"\n", "bad", 0, false},
	{"e_cfg_a = [1, 2]\n", "bad", 0, false},
	{"[[e_cfg_a]]\nRounds = 1\n", "bad", 0, false},
}

func c11Registry(kind int, applies bool) lint.Registry {
	lint.ZZReset()
	r := lint.ZZNewRegistry()
	lint.ZZAddConfigurable(r, kind, 0, "e_cfg_a")
	lint.ZZAddConfigurable(r, kind, 1, "e_cfg_b")
	st := lint.ZZAdd(r, kind, 2, "e_plain", lint.RFC5280, zeroTime, zeroTime)
	_ = st
	lint.ZZSetBehaviour(2, true, false, lint.Warn, "plain")
	lint.ZZSetBehaviour(0, applies, false, lint.Pass, "")
	lint.ZZForget()
	return r
}

// VerifC11Config: for every document of the pool and every kind of lint.
func VerifC11Config() {
	kind := zz.Param("fw.kind", 0)
	di := zz.Int()
	zz.Assume(di >= 0 && di < len(c11Docs))
	d := c11Docs[di]
	cfg, err := lint.NewConfigFromString(d.doc)
	zz.Assert(err == nil, "the document is valid TOML")
	// whether the configurable lint's own applicability test accepts the object is arbitrary
	applies := zz.Bool()
	r := c11Registry(kind, true)
	obj := fwObject(kind)

	// run 1: the registry's initial (empty) configuration
	rs0 := fwRun(kind, obj, r)
	seen0, ran0 := lint.ZZSeen(0)
	zz.Assert(rs0 != nil && ran0 && seen0.Rounds == 100 && !seen0.Skip, "with no configuration the lint runs with its constructor defaults")
	lint.ZZForget()

	// run 2: after SetConfiguration
	lint.ZZSetBehaviour(0, applies, false, lint.Pass, "")
	r.SetConfiguration(cfg)
	rs := fwRun(kind, obj, r)
	zz.Assert(rs != nil, "linting returns")
	if rs == nil {
		return
	}
	a, b, p := rs.Results["e_cfg_a"], rs.Results["e_cfg_b"], rs.Results["e_plain"]
	zz.Assert(a != nil && b != nil && p != nil, "every lint has a result")
	if a == nil || b == nil || p == nil {
		return
	}
	seen, ran := lint.ZZSeen(0)
	switch {
	case d.class != "bad" && !applies:
		zz.Cover("configurable lint does not apply")
		zz.Assert(a.Status == lint.NA && !ran, "a well-configured lint that does not apply reports NA")
	case d.class == "same":
		zz.Cover("unrelated or empty configuration")
		zz.Assert(ran && seen.Rounds == 100 && !seen.Skip && a.Status == lint.Pass, "an empty configuration or one with only unrelated sections leaves the lint's behaviour unchanged")
	case d.class == "set":
		zz.Cover("option set")
		zz.Assert(ran && seen.Rounds == d.rounds && seen.Skip == d.skip && a.Status == lint.Pass, "setting the lint's options changes what the lint sees from the next run on")
	case d.class == "bad":
		zz.Cover("section cannot be applied")
		zz.Assert(a.Status == lint.Fatal, "a section that cannot be applied makes exactly that lint report fatal")
		zz.Assert(strings.Contains(a.Details, "A fatal error occurred while attempting to configure e_cfg_a"), "the fatal result carries the configuration error message")
		zz.Assert(!ran, "the rule body is not run with a configuration that could not be applied")
	}
	// nothing else changes
	zz.Assert(p.Status == lint.Warn && p.Details == "plain", "a lint that is not configurable is unaffected by any configuration")
	zz.Assert(lint.ZZConfigured(2) == 0, "a lint that is not configurable is never asked for a configuration target")
	sb, ranb := lint.ZZSeen(1)
	if strings.Contains(d.doc, "[e_cfg_b]") {
		zz.Assert(ranb && sb.Rounds == 5 && b.Status == lint.Pass, "another lint's own section is applied to it")
	} else {
		zz.Assert(ranb && sb.Rounds == 100 && !sb.Skip && b.Status == lint.Pass, "another configurable lint is unaffected by this lint's section")
	}

	// no leak between registries; filtered registries inherit
	lint.ZZForget()
	fr, ferr := r.Filter(lint.FilterOptions{IncludeNames: []string{"e_cfg_a"}})
	zz.Assert(ferr == nil && fr != nil && fr.GetConfiguration() == cfg, "a filtered registry inherits the configuration")
	fresh := c11Registry(kind, true)
	rs3 := fwRun(kind, obj, fresh)
	s3, ran3 := lint.ZZSeen(0)
	zz.Assert(rs3 != nil && ran3 && s3.Rounds == 100 && !s3.Skip, "configuration does not leak into another registry")

	// ... nor between runs: going back to an empty configuration restores the defaults
	lint.ZZForget()
	lint.ZZSetBehaviour(0, true, false, lint.Pass, "")
	r.SetConfiguration(lint.NewEmptyConfig())
	rs4 := fwRun(kind, obj, r)
	s4, ran4 := lint.ZZSeen(0)
	zz.Assert(rs4 != nil && ran4 && s4.Rounds == 100 && !s4.Skip, "replacing the configuration by an empty one restores the constructor defaults on the next run")
}

// VerifC04ConfigOrder: a configurable lint is configured first, on the fresh
// instance, and only then asked whether it applies; a configuration error ends
// the execution before the applicability test.
func VerifC04ConfigOrder() {
	kind := zz.Param("fw.kind", 0)
	di := zz.Int()
	zz.Assume(di >= 0 && di < len(c11Docs))
	d := c11Docs[di]
	cfg, err := lint.NewConfigFromString(d.doc)
	zz.Assert(err == nil, "the document is valid TOML")
	applies := zz.Bool()
	r := c11Registry(kind, applies)
	r.SetConfiguration(cfg)
	obj := fwObject(kind)
	lint.ZZForget()
	rs := fwRun(kind, obj, r)
	zz.Assert(rs != nil && rs.Results["e_cfg_a"] != nil, "the lint has a result")
	if rs == nil || rs.Results["e_cfg_a"] == nil {
		return
	}
	res := rs.Results["e_cfg_a"]
	ev := fwEvents(0)
	zz.Assert(len(ev) >= 1 && ev[0].What == "configure", "a configurable lint is configured before anything else is asked of it")
	asked := false
	for _, e := range ev {
		if e.What == "applies" || e.What == "execute" {
			asked = true
			zz.Assert(e.Inst == ev[0].Inst, "the configured instance is the one that is asked and run")
		}
	}
	if d.class == "bad" {
		zz.Cover("configuration error")
		zz.Assert(res.Status == lint.Fatal && !asked, "a configuration error ends the execution before the applicability test")
	} else if !applies {
		zz.Cover("configured, does not apply")
		zz.Assert(res.Status == lint.NA, "a configured lint that does not apply reports NA")
	} else {
		zz.Cover("configured and run")
		zz.Assert(res.Status == lint.Pass, "a configured, applicable lint reports its body's verdict")
	}
}

// VerifC07Configured: independence under a configuration.  A registry with two
// configurable stubs and a plain one is given a configuration from the pool;
// every filtered registry (include list / exclude list chosen symbolically)
// must give each selected lint the same status, details and - for the
// configurable ones - the same configured options as the full registry does.
func VerifC07Configured() {
	kind := zz.Param("fw.kind", 0)
	di := zz.Int()
	zz.Assume(di >= 0 && di < len(c11Docs))
	d := c11Docs[di]
	cfg, err := lint.NewConfigFromString(d.doc)
	zz.Assert(err == nil, "the document is valid TOML")
	r := c11Registry(kind, true)
	r.SetConfiguration(cfg)
	names := []string{"e_cfg_a", "e_cfg_b", "e_plain"}
	sel := make([]bool, len(names))
	var inc, exc []string
	byExclusion := zz.Bool()
	for i, n := range names {
		sel[i] = zz.Bool()
		if sel[i] && !byExclusion {
			inc = append(inc, n)
		}
		if !sel[i] && byExclusion {
			exc = append(exc, n)
		}
	}
	if len(inc) == 0 && len(exc) == 0 {
		return
	}
	fr, ferr := r.Filter(lint.FilterOptions{IncludeNames: inc, ExcludeNames: exc})
	zz.Assert(ferr == nil && fr != nil, "filtering by registered names succeeds")
	if ferr != nil || fr == nil {
		return
	}
	obj := fwObject(kind)
	lint.ZZForget()
	full := fwRun(kind, obj, r)
	fa, fran := lint.ZZSeen(0)
	fb, fbran := lint.ZZSeen(1)
	lint.ZZForget()
	part := fwRun(kind, obj, fr)
	pa, pran := lint.ZZSeen(0)
	pb, pbran := lint.ZZSeen(1)
	zz.Assert(full != nil && part != nil, "both runs return a result set")
	if full == nil || part == nil {
		return
	}
	for i, n := range names {
		f, p := full.Results[n], part.Results[n]
		if !sel[i] {
			zz.Cover("unselected lint")
			zz.Assert(p == nil, "an unselected lint has no result in the filtered run")
			continue
		}
		zz.Cover("selected lint")
		zz.Assert(f != nil && p != nil, "a selected lint has a result in both runs")
		if f != nil && p != nil {
			zz.Assert(f.Status == p.Status && f.Details == p.Details, "under a configuration a selected lint gets the same status and details with the filtered and the full registry")
		}
	}
	if sel[0] {
		zz.Assert(fran == pran && fa == pa, "a selected configurable lint sees the same options with the filtered and the full registry")
	}
	if sel[1] {
		zz.Assert(fbran == pbran && fb == pb, "a second selected configurable lint sees the same options with the filtered and the full registry")
	}
	zz.Assert(zz.Implies(part.FatalsPresent, full.FatalsPresent), "a fatal flag raised by the filtered run is raised by the full run")
	zz.Assert(zz.Implies(part.WarningsPresent, full.WarningsPresent), "a warning flag raised by the filtered run is raised by the full run")
}
