package zlint

import (
	"encoding/json"
	"strings"
	"unicode/utf8"

	"github.com/zmap/zlint/v3/lint"
	zz "github.com/zmap/zlint/v3/zzverif"
)

type c14Sink struct{ b []byte }

func (s *c14Sink) Write(p []byte) (int, error) { s.b = append(s.b, p...); return len(p), nil }

// c14Native is the native counterpart of the listing check (replays): the bytes the real encoder wrote are
// split into lines and decoded with the real decoder.
func c14Native(r lint.Registry, out []byte) {
	names := r.Names()
	lines := strings.Split(strings.TrimRight(string(out), "\n"), "\n")
	zz.Assert(len(lines) == len(names), "the listing has exactly one line per registered lint")
	seen := map[string]int{}
	for _, ln := range lines {
		var md lint.LintMetadata
		err := json.Unmarshal([]byte(ln), &md)
		zz.Assert(err == nil, "the source on a listing line decodes to the lint's source")
		if err != nil {
			continue
		}
		seen[md.Name]++
		var want *lint.LintMetadata
		if l := r.CertificateLints().ByName(md.Name); l != nil {
			want = &l.LintMetadata
		} else if l := r.RevocationListLints().ByName(md.Name); l != nil {
			want = &l.LintMetadata
		} else if l := r.OcspResponseLints().ByName(md.Name); l != nil {
			want = &l.LintMetadata
		}
		zz.Assert(want != nil, "every listing line is a registered lint of its own kind")
		if want != nil {
			zz.Assert(md.Source == want.Source, "the source on a listing line decodes to the lint's source")
			zz.Assert(md.Description == want.Description && md.Citation == want.Citation, "the listing line of a lint carries description and citation under their stable keys")
		}
	}
	for _, n := range names {
		zz.Assert(seen[n] == 1, "every registered lint is listed exactly once")
	}
	zz.Cover("listing")
}

// c14Field finds the entry of a JSON key in a zz.JSONTags list; n is the number of fields that claim the key.
func c14Field(tags []string, key string) (goField, opts, typ string, n int) {
	for _, t := range tags {
		p := strings.SplitN(t, "|", 4)
		if len(p) == 4 && p[1] == key {
			goField, opts, typ = p[0], p[2], p[3]
			n++
		}
	}
	return
}

func c14MetaTags(x interface{}, what string) {
	tags := zz.JSONTags(x)
	for _, want := range [][3]string{{"name", "Name", "string"}, {"description", "Description", "string"}, {"citation", "Citation", "string"}, {"source", "Source", "lint.LintSource"}} {
		f, _, typ, n := c14Field(tags, want[0])
		zz.Assert(n == 1 && f == want[1] && typ == want[2], "the listing line of a "+what+" carries "+want[0]+" under its stable key")
	}
	// what is hidden from the listing stays hidden; nothing else is added
	for _, t := range tags {
		p := strings.SplitN(t, "|", 4)
		known := p[1] == "name" || p[1] == "description" || p[1] == "citation" || p[1] == "source" || p[1] == "-"
		zz.Assert(known, "the listing line of a "+what+" has no other members")
	}
}

// VerifC14Listing: the registry's JSON listing has exactly one line per
// registered lint (of any kind), every line is the lint object itself, and what
// the codec considers of it (struct tags of the current source) is name,
// description, citation and source - the source in a form the library decodes.
func VerifC14Listing() {
	r := lint.GlobalRegistry()
	sink := &c14Sink{}
	r.WriteJSON(sink)
	if zz.Replaying() {
		c14Native(r, sink.b)
		return
	}
	enc := zz.JSONEncoded()
	names := r.Names()
	zz.Assert(len(enc) == len(names), "the listing has exactly one line per registered lint")
	seen := map[string]int{}
	for _, v := range enc {
		var md lint.LintMetadata
		registered := false
		switch l := v.(type) {
		case *lint.CertificateLint:
			md, registered = l.LintMetadata, r.CertificateLints().ByName(l.Name) == l
		case *lint.RevocationListLint:
			md, registered = l.LintMetadata, r.RevocationListLints().ByName(l.Name) == l
		case *lint.OcspResponseLint:
			md, registered = l.LintMetadata, r.OcspResponseLints().ByName(l.Name) == l
		}
		zz.Assert(registered, "every listing line is a registered lint of its own kind")
		seen[md.Name]++
		var s lint.LintSource
		err := s.UnmarshalJSON([]byte("\"" + string(md.Source) + "\""))
		zz.Assert(err == nil && s == md.Source, "the source on a listing line decodes to the lint's source")
		zz.Assert(utf8.ValidString(md.Name) && utf8.ValidString(md.Description) && utf8.ValidString(md.Citation) && utf8.ValidString(string(md.Source)), "name, description, citation and source are valid UTF-8, which JSON strings carry unchanged")
	}
	for _, n := range names {
		zz.Assert(seen[n] == 1, "every registered lint is listed exactly once")
	}
	c14MetaTags(&lint.CertificateLint{}, "certificate lint")
	c14MetaTags(&lint.RevocationListLint{}, "CRL lint")
	c14MetaTags(&lint.OcspResponseLint{}, "OCSP lint")
	c14MetaTags(&lint.LintMetadata{}, "lint metadata record")
	zz.Cover("listing")
}

// VerifC14ResultSetShape: what the codec considers of a result set and of a
// result: status under "result" (through LintStatus' own MarshalJSON /
// UnmarshalJSON, checked separately), details, the four presence flags, version
// and timestamp, the results keyed by lint name; the metadata copy is hidden.
func VerifC14ResultSetShape() {
	rt := zz.JSONTags(&lint.LintResult{})
	f, _, typ, n := c14Field(rt, "result")
	zz.Assert(n == 1 && f == "Status" && typ == "lint.LintStatus", "a result's status is encoded under \"result\"")
	f, _, typ, n = c14Field(rt, "details")
	zz.Assert(n == 1 && f == "Details" && typ == "string", "a result's details text is encoded under \"details\"")
	zz.Assert(len(rt) == 3, "a result has no other members than status, details and the hidden metadata copy")
	st := zz.JSONTags(&ResultSet{})
	for _, want := range [][3]string{{"version", "Version", "int64"}, {"timestamp", "Timestamp", "int64"}, {"lints", "Results", "map[string]*lint.LintResult"},
		{"notices_present", "NoticesPresent", "bool"}, {"warnings_present", "WarningsPresent", "bool"}, {"errors_present", "ErrorsPresent", "bool"}, {"fatals_present", "FatalsPresent", "bool"}} {
		f, opts, typ, n := c14Field(st, want[0])
		zz.Assert(n == 1 && f == want[1] && typ == want[2], "the result set carries "+want[0]+" under its stable key")
		zz.Assert(!strings.Contains(opts, "omitempty") && !strings.Contains(opts, "string"), "presence flags, version and results are always written as themselves")
	}
	zz.Assert(len(st) == 7, "the result set has no other members")
	zz.Cover("shape")
}
