package zlint

import (
	"net"
	"time"

	"github.com/zmap/zcrypto/x509"
	"github.com/zmap/zcrypto/x509/pkix"
	"github.com/zmap/zlint/v3/lint"
	zz "github.com/zmap/zlint/v3/zzverif"
)

func c17RevStr(l []string) []string {
	if l == nil {
		return nil
	}
	out := make([]string, 0, len(l))
	for i := len(l) - 1; i >= 0; i-- {
		out = append(out, l[i])
	}
	return out
}

func c17RevIP(l []net.IP) []net.IP {
	if l == nil {
		return nil
	}
	out := make([]net.IP, 0, len(l))
	for i := len(l) - 1; i >= 0; i-- {
		out = append(out, l[i])
	}
	return out
}

func c17RevExt(l []pkix.Extension) []pkix.Extension {
	if l == nil {
		return nil
	}
	out := make([]pkix.Extension, 0, len(l))
	for i := len(l) - 1; i >= 0; i-- {
		out = append(out, l[i])
	}
	return out
}

// a pool of DNS names that exercise the label rules (replayable variant)
var c17Pool = []string{"a.example.com", "a.-example.com", "a.example-.com", "x_y.example.com", "x.a_b.com", "_x.example.com", "com", "a..b", "*.example.com", "*.com", "*.co.uk", "", "xn--a.example.com", "localhost"}

var c17URIPool = []string{"http://example.com/a", "urn:isbn:0451450523", "mailto:a@example.com", "http://localhost/", "https://192.0.2.1/x", "http://[2001:db8::1]/", "ftp://a_b/", "http://example.com:8080/", "sip:alice@example.org", "/relative/only", "http://exa mple.com/"}

// VerifC17Order: the verdict of the lint on a certificate and on the same
// certificate with every general-name list (or the extension list) reversed
// is the same.  With lists of at most two entries reversal is the only
// non-trivial permutation.
func VerifC17Order() {
	name := zz.ParamStr("sweep.lint", "e_dnsname_empty_label")
	what := zz.ParamStr("c17.what", "san")
	l := lint.GlobalRegistry().CertificateLints().ByName(name)
	zz.Assert(l != nil, "the lint is registered")
	if l == nil {
		return
	}
	c1 := zz.Lazy[x509.Certificate]("c")
	if zz.Param("c17.pool", 0) == 1 {
		// replayable variant: two DNS names drawn from the pool, common name empty
		i, j := zz.Int(), zz.Int()
		zz.Assume(i >= 0 && i < len(c17Pool) && j >= 0 && j < len(c17Pool))
		c1.DNSNames = []string{c17Pool[i], c17Pool[j]}
		c1.Subject.CommonName = ""
		// everything the order question does not depend on is fixed: a subscriber certificate issued in 2021
		c1.IsCA, c1.SelfSigned = false, false
		c1.BasicConstraintsValid = false
		c1.NotBefore = time.Date(2021, 3, 1, 0, 0, 0, 0, time.UTC)
		c1.NotAfter = time.Date(2021, 9, 1, 0, 0, 0, 0, time.UTC)
		c1.ExtKeyUsage, c1.UnknownExtKeyUsage = nil, nil
		c1.EmailAddresses, c1.IPAddresses, c1.URIs = nil, nil, nil
		c1.IANDNSNames, c1.IANEmailAddresses, c1.IANURIs, c1.IANIPAddresses = nil, nil, nil, nil
	}
	if pv := zz.Param("c17.pool", 0); pv == 2 || pv == 3 {
		// replayable variant for the URI rules: two URIs drawn from a pool of opaque, host-less, IP-literal,
		// non-FQDN and well-formed URIs; url.Parse is evaluated by the real library
		i, j := zz.Int(), zz.Int()
		zz.Assume(i >= 0 && i < len(c17URIPool) && j >= 0 && j < len(c17URIPool))
		c1.IsCA, c1.SelfSigned = false, false
		c1.BasicConstraintsValid = false
		c1.NotBefore = time.Date(2021, 3, 1, 0, 0, 0, 0, time.UTC)
		c1.NotAfter = time.Date(2021, 9, 1, 0, 0, 0, 0, time.UTC)
		c1.ExtKeyUsage, c1.UnknownExtKeyUsage = nil, nil
		c1.DNSNames, c1.EmailAddresses, c1.IPAddresses, c1.URIs = nil, nil, nil, nil
		c1.IANDNSNames, c1.IANEmailAddresses, c1.IANURIs, c1.IANIPAddresses = nil, nil, nil, nil
		c1.Subject.CommonName = ""
		if pv == 2 {
			c1.URIs = []string{c17URIPool[i], c17URIPool[j]}
		} else {
			c1.IANURIs = []string{c17URIPool[i], c17URIPool[j]}
		}
	}
	c1 = zz.Realise(c1)
	c2 := new(x509.Certificate)
	*c2 = *c1
	if what == "ext" {
		if len(c1.Extensions) == 2 {
			zz.Assume(!c1.Extensions[0].Id.Equal(c1.Extensions[1].Id))
		}
		c2.Extensions = c17RevExt(c1.Extensions)
		c2.ExtraExtensions = c2.Extensions
	} else {
		c2.DNSNames = c17RevStr(c1.DNSNames)
		c2.EmailAddresses = c17RevStr(c1.EmailAddresses)
		c2.URIs = c17RevStr(c1.URIs)
		c2.IPAddresses = c17RevIP(c1.IPAddresses)
		c2.IANDNSNames = c17RevStr(c1.IANDNSNames)
		c2.IANEmailAddresses = c17RevStr(c1.IANEmailAddresses)
		c2.IANURIs = c17RevStr(c1.IANURIs)
		c2.IANIPAddresses = c17RevIP(c1.IANIPAddresses)
		if zz.Replaying() {
			// c1 now is a parsed certificate: its raw SAN / IAN extension values must not be re-used verbatim
			// for c2, whose general names are to be encoded from the reversed lists
			em := map[string]pkix.Extension{}
			for k, e := range c1.ExtensionsMap {
				if k != "2.5.29.17" && k != "2.5.29.18" {
					em[k] = e
				}
			}
			c2.ExtensionsMap = em
		}
	}
	c2 = zz.Realise(c2)
	cfg := lint.NewEmptyConfig()
	zz.MonitorStart()
	r1 := l.Execute(c1, cfg)
	r2 := l.Execute(c2, cfg)
	zz.MonitorStop()
	zz.Assert(r1 != nil && r2 != nil, "both runs return a result")
	if r1 == nil || r2 == nil {
		return
	}
	zz.Cover("result")
	zz.Assert(r1.Status == r2.Status, "re-ordering the entries changes no lint's status")
}
