package zzverif

import (
	"math/big"
	"reflect"
	"strconv"
	"strings"
	"time"
)

// IfaceCandidates mirrors the engine's table of dynamic types an interface
// typed input field may hold, keyed by the access path without the root name
// (".PublicKey").  Entry i is chosen when "<name>!dyn<i>" is true in the model;
// the last entry when none is.  A nil entry stands for the nil interface.
var IfaceCandidates = map[string][]reflect.Type{}

func fillLazy(name string, ptr interface{}, model map[string]string) {
	fillValue(name, reflect.ValueOf(ptr).Elem(), model)
}

var timeType = reflect.TypeOf(time.Time{})
var bigPtrType = reflect.TypeOf((*big.Int)(nil))

func fillValue(name string, v reflect.Value, model map[string]string) {
	if !v.CanSet() {
		return
	}
	t := v.Type()
	if t == timeType {
		if s, ok := model[name+"!sec"]; ok {
			v.Set(reflect.ValueOf(InZone(TimeFromInternal(int64(DecodeBV(s)), int64(DecodeBV(model[name+"!nsec"]))), model, name)))
		}
		return
	}
	if t == bigPtrType {
		if s, ok := model[name]; ok {
			v.Set(reflect.ValueOf(DecodeInt(s)))
		} else {
			v.Set(reflect.ValueOf(new(big.Int)))
		}
		return
	}
	switch t.Kind() {
	case reflect.Bool:
		if s, ok := model[name]; ok {
			v.SetBool(s == "true")
		}
	case reflect.Int, reflect.Int8, reflect.Int16, reflect.Int32, reflect.Int64:
		if s, ok := model[name]; ok {
			u := DecodeBV(s)
			bits := t.Bits()
			if bits < 64 {
				u = uint64(int64(u<<(64-uint(bits))) >> (64 - uint(bits)))
			}
			v.SetInt(int64(u))
		}
	case reflect.Uint, reflect.Uint8, reflect.Uint16, reflect.Uint32, reflect.Uint64, reflect.Uintptr:
		if s, ok := model[name]; ok {
			v.SetUint(DecodeBV(s))
		}
	case reflect.String:
		if s, ok := model[name]; ok {
			v.SetString(DecodeString(s))
		}
	case reflect.Struct:
		for i := 0; i < t.NumField(); i++ {
			fillValue(name+"."+t.Field(i).Name, v.Field(i), model)
		}
	case reflect.Array:
		for i := 0; i < t.Len(); i++ {
			fillValue(name+"["+strconv.Itoa(i)+"]", v.Index(i), model)
		}
	case reflect.Ptr:
		if model[name+"!nn"] == "true" {
			nv := reflect.New(t.Elem())
			fillValue(name+".*", nv.Elem(), model)
			v.Set(nv)
		}
	case reflect.Slice:
		ls, ok := model[name+"!len"]
		if !ok {
			return
		}
		n := int(DecodeBV(ls))
		if n == 0 && model[name+"!nil"] == "true" {
			return
		}
		sl := reflect.MakeSlice(t, n, n)
		for i := 0; i < n; i++ {
			fillValue(name+"["+strconv.Itoa(i)+"]", sl.Index(i), model)
		}
		v.Set(sl)
	case reflect.Map:
		pfx := name + "["
		var m reflect.Value
		for k, val := range model {
			if !strings.HasPrefix(k, pfx) || !strings.HasSuffix(k, "]!present") || val != "true" {
				continue
			}
			ks := k[len(pfx) : len(k)-len("]!present")]
			key, err := strconv.Unquote(ks)
			if err != nil {
				continue
			}
			if !m.IsValid() {
				m = reflect.MakeMap(t)
			}
			ev := reflect.New(t.Elem()).Elem()
			fillValue(name+"["+ks+"]", ev, model)
			m.SetMapIndex(reflect.ValueOf(key).Convert(t.Key()), ev)
		}
		if m.IsValid() {
			v.Set(m)
		}
	case reflect.Interface:
		key := name
		if i := strings.Index(name, "."); i >= 0 {
			key = name[i:]
		}
		cands := IfaceCandidates[key]
		for i, ct := range cands {
			if i == len(cands)-1 || model[name+"!dyn"+strconv.Itoa(i)] == "true" {
				if ct == nil {
					return
				}
				nv := reflect.New(ct).Elem()
				fillValue(name+".("+shortType(ct)+")", nv, model)
				if nv.Kind() == reflect.Ptr && nv.IsNil() {
					return
				}
				v.Set(nv)
				return
			}
		}
	}
}

func shortType(t reflect.Type) string { return t.String() }
