package zzverif

import (
	"crypto/ecdsa"
	"crypto/elliptic"
	"crypto/rand"
	"crypto/rsa"
	"math/big"
	"net"
	"time"

	"github.com/zmap/zcrypto/encoding/asn1"
	"github.com/zmap/zcrypto/x509"
	"github.com/zmap/zcrypto/x509/pkix"
	"golang.org/x/crypto/cryptobyte"
	cbasn1 "golang.org/x/crypto/cryptobyte/asn1"
)

// Realise turns the certificate *struct* rebuilt from a solver model into a
// certificate the real parser produced: the struct is used as a template for
// zcrypto's CreateCertificate (throw-away P-256 signing key, issuer named by
// the model's Issuer), the DER is parsed with x509.ParseCertificate, and the
// parsed certificate is returned.  Under the symbolic executor this is the
// identity.  When the template cannot be encoded or parsed the replay is
// abandoned (AssumeFailed), so a counterexample only counts when it survives
// the real parser.
func Realise(c *x509.Certificate) *x509.Certificate {
	if c == nil {
		panic(AssumeFailed{})
	}
	t := *c
	if t.SerialNumber == nil {
		t.SerialNumber = big.NewInt(1)
	}
	key, err := ecdsa.GenerateKey(elliptic.P256(), rand.Reader)
	if err != nil {
		panic(AssumeFailed{})
	}
	t.SignatureAlgorithm = x509.ECDSAWithSHA256
	// the subject key is a different key, so the certificate is not self-signed
	// unless the model says so (then it is signed with its own key)
	subj, err := ecdsa.GenerateKey(elliptic.P256(), rand.Reader)
	if err != nil {
		panic(AssumeFailed{})
	}
	var pub interface{} = &subj.PublicKey
	if c.SelfSigned {
		pub = &key.PublicKey
	}
	if rk, ok := c.PublicKey.(*rsa.PublicKey); ok && rk != nil && rk.N != nil && rk.N.Sign() > 0 && rk.E > 0 {
		pub = rk
	}
	t.PublicKey = nil
	t.Extensions = nil
	// explicit texts of policy qualifiers are not encoded by CreateCertificate: build the extension by hand
	if ext, ok := policiesExtension(c); ok {
		t.PolicyIdentifiers = nil
		t.ExtraExtensions = append(append([]pkix.Extension{}, t.ExtraExtensions...), ext)
	}
	// subjectAltName / issuerAltName: zcrypto's encoder writes DNS names, e-mail addresses and IP addresses
	// only (and no issuerAltName at all); URIs and the IAN lists are encoded by hand
	explicit := func(oid string) bool {
		e, ok := c.ExtensionsMap[oid]
		return ok && e.Value != nil
	}
	if len(c.URIs) > 0 && !explicit("2.5.29.17") {
		t.ExtraExtensions = append(t.ExtraExtensions, pkix.Extension{Id: asn1.ObjectIdentifier{2, 5, 29, 17}, Value: generalNames(c.EmailAddresses, c.DNSNames, c.URIs, c.IPAddresses)})
		t.DNSNames, t.EmailAddresses, t.IPAddresses, t.URIs = nil, nil, nil, nil
	}
	if len(c.IANDNSNames)+len(c.IANEmailAddresses)+len(c.IANURIs)+len(c.IANIPAddresses) > 0 && !explicit("2.5.29.18") {
		t.ExtraExtensions = append(t.ExtraExtensions, pkix.Extension{Id: asn1.ObjectIdentifier{2, 5, 29, 18}, Value: generalNames(c.IANEmailAddresses, c.IANDNSNames, c.IANURIs, c.IANIPAddresses)})
	}
	// extensions the model names through the extension map (present flag, criticality, raw value) are
	// encoded verbatim; the encoder lets them override what it would derive from the typed fields, and the
	// parser then derives the typed fields from the raw value (or rejects the certificate)
	for k, e := range c.ExtensionsMap {
		id := e.Id
		if len(id) == 0 {
			id = parseOID(k)
		}
		if len(id) < 2 || id.Equal(oidCertPolicies) && len(t.ExtraExtensions) > 0 {
			continue
		}
		v := e.Value
		if v == nil {
			// the path only asked whether the extension is present: for extensions the encoder derives from
			// typed fields those fields decide the content; any other extension is added with an empty value
			// (if the parser interprets it and rejects that, the replay ends unconfirmed)
			if derivedFromFields[k] {
				continue
			}
			v = []byte{}
		}
		t.ExtraExtensions = append(t.ExtraExtensions, pkix.Extension{Id: id, Critical: e.Critical, Value: v})
	}
	t.ExtensionsMap = nil
	parent := &x509.Certificate{Subject: c.Issuer, SerialNumber: big.NewInt(2)}
	if c.SelfSigned {
		parent = &t
	}
	der, err := x509.CreateCertificate(rand.Reader, &t, parent, pub, key)
	if err != nil {
		panic(AssumeFailed{})
	}
	out, err := x509.ParseCertificate(der)
	if err != nil {
		panic(AssumeFailed{})
	}
	return out
}

// extensions zcrypto's CreateCertificate writes from typed template fields
var derivedFromFields = map[string]bool{"2.5.29.14": true, "2.5.29.15": true, "2.5.29.17": true, "2.5.29.18": true, "2.5.29.19": true, "2.5.29.30": true,
	"2.5.29.31": true, "2.5.29.32": true, "2.5.29.35": true, "2.5.29.37": true, "1.3.6.1.5.5.7.1.1": true}

var oidCertPolicies = asn1.ObjectIdentifier{2, 5, 29, 32}

// generalNames encodes a GeneralNames SEQUENCE (rfc822Name [1], dNSName [2], uniformResourceIdentifier [6],
// iPAddress [7]) keeping the order of each list.
func generalNames(emails, dns, uris []string, ips []net.IP) []byte {
	var b cryptobyte.Builder
	b.AddASN1(cbasn1.SEQUENCE, func(b *cryptobyte.Builder) {
		for _, n := range dns {
			n := n
			b.AddASN1(cbasn1.Tag(2).ContextSpecific(), func(b *cryptobyte.Builder) { b.AddBytes([]byte(n)) })
		}
		for _, n := range emails {
			n := n
			b.AddASN1(cbasn1.Tag(1).ContextSpecific(), func(b *cryptobyte.Builder) { b.AddBytes([]byte(n)) })
		}
		for _, n := range uris {
			n := n
			b.AddASN1(cbasn1.Tag(6).ContextSpecific(), func(b *cryptobyte.Builder) { b.AddBytes([]byte(n)) })
		}
		for _, ip := range ips {
			raw := []byte(ip)
			if v4 := ip.To4(); v4 != nil && len(ip) != 16 {
				raw = v4
			}
			b.AddASN1(cbasn1.Tag(7).ContextSpecific(), func(b *cryptobyte.Builder) { b.AddBytes(raw) })
		}
	})
	der, err := b.Bytes()
	if err != nil {
		panic(AssumeFailed{})
	}
	return der
}

func parseOID(s string) asn1.ObjectIdentifier {
	var out asn1.ObjectIdentifier
	n, have := 0, false
	for i := 0; i <= len(s); i++ {
		if i == len(s) || s[i] == '.' {
			if !have {
				return nil
			}
			out = append(out, n)
			n, have = 0, false
			continue
		}
		if s[i] < '0' || s[i] > '9' {
			return nil
		}
		n, have = n*10+int(s[i]-'0'), true
	}
	return out
}

// policiesExtension encodes certificatePolicies with userNotice explicit texts
// (arbitrary string tag and bytes) and CPS URIs taken from the model.
func policiesExtension(c *x509.Certificate) (pkix.Extension, bool) {
	hasQual := false
	// P6: the per-policy lists have one entry per policy; a model that mentions
	// qualifiers of a policy it does not name gets a placeholder policy OID
	n := len(c.PolicyIdentifiers)
	if len(c.ExplicitTexts) > n {
		n = len(c.ExplicitTexts)
	}
	if len(c.CPSuri) > n {
		n = len(c.CPSuri)
	}
	pols := make([]asn1.ObjectIdentifier, n)
	for i := range pols {
		if i < len(c.PolicyIdentifiers) && len(c.PolicyIdentifiers[i]) >= 2 {
			pols[i] = c.PolicyIdentifiers[i]
		} else {
			pols[i] = asn1.ObjectIdentifier{2, 23, 140, 1, 2, 1 + i}
		}
	}
	for i := range pols {
		if i < len(c.ExplicitTexts) && len(c.ExplicitTexts[i]) > 0 {
			hasQual = true
		}
		if i < len(c.CPSuri) && len(c.CPSuri[i]) > 0 {
			hasQual = true
		}
	}
	if !hasQual {
		return pkix.Extension{}, false
	}
	var b cryptobyte.Builder
	b.AddASN1(cbasn1.SEQUENCE, func(b *cryptobyte.Builder) {
		for i, pol := range pols {
			b.AddASN1(cbasn1.SEQUENCE, func(b *cryptobyte.Builder) {
				oid := make([]int, len(pol))
				copy(oid, pol)
				b.AddASN1ObjectIdentifier(oid)
				b.AddASN1(cbasn1.SEQUENCE, func(b *cryptobyte.Builder) {
					if i < len(c.CPSuri) {
						for _, u := range c.CPSuri[i] {
							b.AddASN1(cbasn1.SEQUENCE, func(b *cryptobyte.Builder) {
								b.AddASN1ObjectIdentifier([]int{1, 3, 6, 1, 5, 5, 7, 2, 1})
								b.AddASN1(cbasn1.IA5String, func(b *cryptobyte.Builder) { b.AddBytes([]byte(u)) })
							})
						}
					}
					if i < len(c.ExplicitTexts) {
						for _, et := range c.ExplicitTexts[i] {
							et := et
							b.AddASN1(cbasn1.SEQUENCE, func(b *cryptobyte.Builder) {
								b.AddASN1ObjectIdentifier([]int{1, 3, 6, 1, 5, 5, 7, 2, 2})
								b.AddASN1(cbasn1.SEQUENCE, func(b *cryptobyte.Builder) {
									b.AddASN1(cbasn1.Tag(et.Tag), func(b *cryptobyte.Builder) { b.AddBytes(et.Bytes) })
								})
							})
						}
					}
				})
			})
		}
	})
	der, err := b.Bytes()
	if err != nil {
		return pkix.Extension{}, false
	}
	return pkix.Extension{Id: oidCertPolicies, Value: der}, true
}

// RealiseCRL does the same for revocation lists.
func RealiseCRL(c *x509.RevocationList) *x509.RevocationList {
	if c == nil {
		panic(AssumeFailed{})
	}
	key, err := ecdsa.GenerateKey(elliptic.P256(), rand.Reader)
	if err != nil {
		panic(AssumeFailed{})
	}
	t := *c
	t.SignatureAlgorithm = x509.ECDSAWithSHA256
	if t.Number == nil {
		t.Number = big.NewInt(1)
	}
	t.Extensions = nil
	if t.NextUpdate.IsZero() && t.NextUpdate.Before(t.ThisUpdate) {
		// the path never looked at nextUpdate (no model value): any value the encoder accepts will do
		t.NextUpdate = t.ThisUpdate.Add(time.Hour)
	}
	issuer := &x509.Certificate{Subject: c.Issuer, SerialNumber: big.NewInt(2), KeyUsage: x509.KeyUsageCRLSign, SubjectKeyId: []byte{1, 2, 3, 4}}
	der, err := x509.CreateRevocationList(rand.Reader, &t, issuer, key)
	if err != nil {
		panic(AssumeFailed{})
	}
	out, err := x509.ParseRevocationList(der)
	if err != nil {
		panic(AssumeFailed{})
	}
	return out
}

// RealiseOr is Realise with a fall-back to the struct itself when the model
// cannot be expressed as a DER certificate by the encoder (used where the
// property is about a return path of the lint's code rather than about parser
// reachable inputs).
func RealiseOr(c *x509.Certificate) (out *x509.Certificate) {
	defer func() {
		if r := recover(); r != nil {
			if _, ok := r.(AssumeFailed); ok {
				out = c
				return
			}
			panic(r)
		}
	}()
	return Realise(c)
}

func RealiseCRLOr(c *x509.RevocationList) (out *x509.RevocationList) {
	defer func() {
		if r := recover(); r != nil {
			if _, ok := r.(AssumeFailed); ok {
				out = c
				return
			}
			panic(r)
		}
	}()
	return RealiseCRL(c)
}
