package zzverif

import (
	"encoding/json"
	"math/big"
	"os"
	"strconv"
	"strings"
	"time"
)

type rec struct {
	Kind string `json:"kind"`
	Sym  string `json:"sym"`
	Val  string `json:"val"`
	N    int    `json:"n"`
	// decoded
	u64  uint64
	b    bool
	s    string
	bs   []byte
	t    time.Time
	big  *big.Int
	list []string
	n    int
}

type replayCase struct {
	Func   string            `json:"func"`
	Pkg    string            `json:"pkg"`
	Nondet []rec             `json:"nondet"`
	Model  map[string]string `json:"model"`
}

type replayFile struct {
	Cases []replayCase `json:"cases"`
}

var file *replayFile
var loaded *replayCase
var cursor int

func loadFile() *replayFile {
	if file != nil {
		return file
	}
	file = &replayFile{}
	if p := os.Getenv("ZZ_REPLAY"); p != "" {
		b, err := os.ReadFile(p)
		if err != nil {
			panic(err)
		}
		if err := json.Unmarshal(b, file); err != nil {
			panic(err)
		}
	}
	return file
}

// Cases is the number of recorded counterexamples / path models to replay.
func Cases() int { return len(loadFile().Cases) }

// Select makes case i current and returns the harness function it belongs to.
func Select(i int) (pkg, fn string) {
	f := loadFile()
	loaded = &f.Cases[i]
	cursor = 0
	Failures = nil
	Covers = nil
	return loaded.Pkg, loaded.Func
}

func load() *replayCase {
	if loaded == nil {
		loaded = &replayCase{}
	}
	return loaded
}

func next(kind string) *rec {
	f := load()
	for cursor < len(f.Nondet) && f.Nondet[cursor].Kind == "lazy" && kind != "lazy" {
		cursor++
	}
	if cursor >= len(f.Nondet) {
		// beyond the recorded path: any value will do
		r := &rec{Kind: kind, big: new(big.Int)}
		return r
	}
	r := &f.Nondet[cursor]
	cursor++
	if r.Kind != kind {
		panic("zzverif replay: expected " + kind + " got " + r.Kind)
	}
	decode(r, f.Model)
	return r
}

func decode(r *rec, model map[string]string) {
	switch r.Kind {
	case "u64", "u32", "u8":
		r.u64 = DecodeBV(model[r.Sym])
	case "bool":
		r.b = model[r.Sym] == "true"
	case "string":
		r.s = DecodeString(model[r.Sym])
	case "bytes", "bytesn":
		n := r.N
		if r.Kind == "bytes" {
			n = int(DecodeBV(model[r.Sym+"_len"]))
		}
		r.bs = make([]byte, n)
		for i := range r.bs {
			r.bs[i] = byte(DecodeBV(model[r.Sym+"_"+itoa(i)]))
		}
	case "time":
		sec := int64(DecodeBV(model[r.Sym+"!sec"]))
		nsec := int64(DecodeBV(model[r.Sym+"!nsec"]))
		r.t = InZone(TimeFromInternal(sec, nsec), model, r.Sym)
	case "big":
		r.big = DecodeInt(model[r.Sym])
	case "param":
		r.n, _ = strconv.Atoi(r.Val)
	case "paramstr":
		r.s = r.Val
	case "consts":
		r.list = strings.Split(r.Val, "\x00")
	}
}

// TimeFromInternal builds the time.Time whose internal representation is
// (wall = nsec, ext = seconds since year 1, loc = nil), i.e. a UTC time.
func TimeFromInternal(sec, nsec int64) time.Time {
	const unixToInternal int64 = (1969*365 + 1969/4 - 1969/100 + 1969/400) * 86400
	return time.Unix(sec-unixToInternal, nsec).UTC()
}

func itoa(i int) string {
	if i == 0 {
		return "0"
	}
	s := ""
	for i > 0 {
		s = string(rune('0'+i%10)) + s
		i /= 10
	}
	return s
}

// InZone re-attaches the fixed zone the model chose for this time (same instant).
func InZone(t time.Time, model map[string]string, name string) time.Time {
	if model[name+"!fixedzone"] == "true" {
		return t.In(time.FixedZone("zz", int(int64(DecodeBV(model[name+"!offset"])))))
	}
	return t
}
