package zzverif

import (
	"crypto/dsa"
	"crypto/ed25519"
	"crypto/rsa"
	"reflect"

	"github.com/zmap/zcrypto/x509"
)

func init() {
	IfaceCandidates[".PublicKey"] = []reflect.Type{
		reflect.TypeOf((*rsa.PublicKey)(nil)), reflect.TypeOf((*dsa.PublicKey)(nil)), reflect.TypeOf((*x509.AugmentedECDSA)(nil)),
		reflect.TypeOf(ed25519.PublicKey(nil)), reflect.TypeOf(x509.X25519PublicKey(nil)), nil,
	}
}
