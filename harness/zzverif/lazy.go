package zzverif

// lazyNative rebuilds a lazily initialised symbolic input from the solver
// model: every symbol the symbolic run created is named after the access path
// ("c.Subject.CommonName", "c.DNSNames!len", "c.DNSNames[0]", "c.X!nn"), and
// the same naming scheme is walked here by reflection.  Parts the model does
// not mention keep their zero value.
func lazyNative[T any](name string) *T {
	v := new(T)
	f := load()
	next("lazy")
	fillLazy(name, v, f.Model)
	return v
}
