package zzverif

import (
	"math/big"
	"strconv"
	"strings"
)

func DecodeBV(v string) uint64 {
	switch {
	case strings.HasPrefix(v, "#x"):
		n, _ := strconv.ParseUint(v[2:], 16, 64)
		return n
	case strings.HasPrefix(v, "#b"):
		n, _ := strconv.ParseUint(v[2:], 2, 64)
		return n
	case strings.HasPrefix(v, "(_ bv"):
		f := strings.Fields(strings.Trim(v, "()"))
		n, _ := strconv.ParseUint(strings.TrimPrefix(f[1], "bv"), 10, 64)
		return n
	}
	return 0
}

func DecodeInt(v string) *big.Int {
	v = strings.TrimSpace(v)
	neg := false
	if strings.HasPrefix(v, "(-") {
		neg = true
		v = strings.TrimSpace(strings.TrimSuffix(strings.TrimPrefix(v, "(-"), ")"))
	}
	n, ok := new(big.Int).SetString(v, 10)
	if !ok {
		return new(big.Int)
	}
	if neg {
		n.Neg(n)
	}
	return n
}

func DecodeString(v string) string {
	if len(v) < 2 || v[0] != '"' {
		return ""
	}
	body := v[1 : len(v)-1]
	var out []byte
	for i := 0; i < len(body); i++ {
		c := body[i]
		if c == '"' && i+1 < len(body) && body[i+1] == '"' {
			out = append(out, '"')
			i++
			continue
		}
		if c == '\\' && i+2 < len(body) && body[i+1] == 'u' && body[i+2] == '{' {
			j := strings.IndexByte(body[i+3:], '}')
			if j >= 0 {
				n, err := strconv.ParseUint(body[i+3:i+3+j], 16, 32)
				if err == nil {
					if n > 255 {
						n = '?'
					}
					out = append(out, byte(n))
					i = i + 3 + j
					continue
				}
			}
		}
		if c == '\\' && i+5 < len(body) && body[i+1] == 'u' {
			n, err := strconv.ParseUint(body[i+2:i+6], 16, 32)
			if err == nil {
				if n > 255 {
					n = '?'
				}
				out = append(out, byte(n))
				i += 5
				continue
			}
		}
		if c == '\\' && i+3 < len(body) && body[i+1] == 'x' {
			n, err := strconv.ParseUint(body[i+2:i+4], 16, 32)
			if err == nil {
				out = append(out, byte(n))
				i += 3
				continue
			}
		}
		out = append(out, c)
	}
	return string(out)
}
