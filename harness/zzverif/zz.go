// Package zzverif is the harness helper package.  It exists only in the
// overlay handed to go/packages (symbolic runs) and to `go test -overlay`
// (native replays); /repo never contains it.
//
// Under the symbolic executor every function below is intercepted by name and
// its body is ignored.  Natively the bodies replay a recorded solver model
// (file named by ZZ_REPLAY) so that a counterexample can be run against the
// real build.
package zzverif

import (
	"math/big"
	"reflect"
	"regexp"
	"strings"
	"time"
)

func Int() int             { return int(next("u64").u64) }
func Int64() int64         { return int64(next("u64").u64) }
func Uint64() uint64       { return next("u64").u64 }
func Int32() int32         { return int32(next("u32").u64) }
func Uint32() uint32       { return uint32(next("u32").u64) }
func Byte() byte           { return byte(next("u8").u64) }
func Bool() bool           { return next("bool").b }
func String() string       { return next("string").s }
func Bytes(max int) []byte { return next("bytes").bs }
func BytesN(n int) []byte  { return next("bytesn").bs }
func Time() time.Time      { return next("time").t }
func BigInt() *big.Int     { return next("big").big }

// Assume restricts the inputs considered; natively a violated assumption means
// the model does not apply and the replay is abandoned.
func Assume(b bool) {
	if !b {
		panic(AssumeFailed{})
	}
}

type AssumeFailed struct{}

// AssertFailed is what a native replay panics with when the property is
// violated on the real build.
type AssertFailed struct{ Msg string }

func Assert(b bool, msg string) {
	if !b {
		Failures = append(Failures, msg)
	}
}

var Failures []string

// Covers records the labels reached natively (compared with the engine's path).
var Covers []string

func Cover(label string) { Covers = append(Covers, label) }

// Lazy returns an arbitrary object of type T (lazily initialised under the
// symbolic executor; rebuilt from the model natively).
func Lazy[T any](name string) *T { return lazyNative[T](name) }

// NamedConsts lists the values of the string constants of a named type declared
// in a package (read from the SSA program by the engine; replayed from the case file natively).
func NamedConsts(pkgPath, typeName string) []string { return next("consts").list }

// Matches reports whether s matches the regular expression (translated to an
// SMT-LIB regular expression by the engine; regexp natively).
func Matches(s, pattern string) bool { return regexp.MustCompile(pattern).MatchString(s) }

// Param is a harness bound chosen by the check (tier dependent); def when unset.
func Param(name string, def int) int { return next("param").n }

func MonitorStart()            {}
func MonitorStop()             {}
func WriteCount() int          { return 0 }
func Note(k, v string)         {}
func SetBound(k string, v int) {}
func Replaying() bool          { return true }

// ParamStr is a harness parameter chosen by the check (e.g. the lint under test).
func ParamStr(name, def string) string { return next("paramstr").s }

var intLit = regexp.MustCompile(`-?[0-9]+`)

// FmtBigArgs returns the *big.Int arguments that were formatted into s
// (natively: the integer literals that appear in s).
func FmtBigArgs(s string) []*big.Int {
	var out []*big.Int
	for _, m := range intLit.FindAllString(s, -1) {
		n, _ := new(big.Int).SetString(m, 10)
		out = append(out, n)
	}
	return out
}

// Branch-free boolean connectives (both operands are evaluated; under the
// symbolic executor they build one term instead of forking).
func And(a, b bool) bool     { return a && b }
func Or(a, b bool) bool      { return a || b }
func Implies(a, b bool) bool { return !a || b }
func Iff(a, b bool) bool     { return a == b }

// RegexpOver returns an arbitrary regular expression as far as the candidate
// strings are concerned (which of them it matches is chosen by the solver).
func RegexpOver(cands []string) *regexp.Regexp {
	r := next("regexp")
	var alts []string
	for i, c := range cands {
		if load().Model[r.Sym+"_m"+itoa(i)] == "true" {
			alts = append(alts, regexp.QuoteMeta(c))
		}
	}
	if len(alts) == 0 {
		return regexp.MustCompile(`^\x00nomatch$`)
	}
	return regexp.MustCompile("^(" + strings.Join(alts, "|") + ")$")
}

// SetMapOrder chooses the order in which the symbolic executor iterates over
// maps from here on ("" insertion order, "reverse", "rot"); natively Go's own
// randomised order applies.
func SetMapOrder(o string) {}

// LocksHeld is the number of sync locks currently held (engine ghost counter).
func LocksHeld() int { return 0 }

// EnvLog is the ghost log of the environment stubs (symbolic runs only).
func EnvLog() []string { return nil }

// Tag names the object x points to, so that environment stubs can report which object they were handed.
func Tag(x interface{}, name string) {}

// JSONTags is encoding/json's view of a struct type: one "GoField|key|options|type"
// entry per field the codec considers (read from the struct tags of the current
// source by the engine; by reflection natively).
func JSONTags(x interface{}) []string {
	t := reflect.TypeOf(x)
	if t.Kind() == reflect.Ptr {
		t = t.Elem()
	}
	var out []string
	var walk func(t reflect.Type)
	walk = func(t reflect.Type) {
		for i := 0; i < t.NumField(); i++ {
			f := t.Field(i)
			tag := f.Tag.Get("json")
			if f.Anonymous && tag == "" {
				ft := f.Type
				if ft.Kind() == reflect.Ptr {
					ft = ft.Elem()
				}
				if ft.Kind() == reflect.Struct {
					walk(ft)
					continue
				}
			}
			if f.PkgPath != "" {
				continue
			}
			key, opts := tag, ""
			if i := strings.Index(tag, ","); i >= 0 {
				key, opts = tag[:i], tag[i+1:]
			}
			if key == "" {
				key = f.Name
			}
			out = append(out, f.Name+"|"+key+"|"+opts+"|"+f.Type.String())
		}
	}
	walk(t)
	return out
}

// JSONEncoded lists the values handed to json.Encoder.Encode so far (engine ghost; nil natively).
func JSONEncoded() []interface{} { return nil }
