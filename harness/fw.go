package zlint

import (
	"time"

	"github.com/zmap/zcrypto/encoding/asn1"

	"github.com/zmap/zcrypto/x509"
	"github.com/zmap/zlint/v3/lint"
	zz "github.com/zmap/zlint/v3/zzverif"
	"golang.org/x/crypto/ocsp"
)

// Shared set-up of the framework harnesses: a registry built through the real
// registration code holding k stub lints of one kind whose behaviour
// (applicability, panic, verdict) the harness chooses.

type fwStub struct {
	s       *lint.ZZStub
	name    string
	src     lint.LintSource
	applies bool
	panics  bool
	early   bool
	status  lint.LintStatus
	details string
	eff     time.Time
	ineff   time.Time
}

var fwSources = []lint.LintSource{lint.RFC5280, lint.CABFBaselineRequirements, lint.CABFSMIMEBaselineRequirements, lint.CABFCSBaselineRequirements}

var zeroTime time.Time

type fwScope struct {
	eku     []x509.ExtKeyUsage
	unknown []asn1.ObjectIdentifier
	pol     []asn1.ObjectIdentifier
	mail    []string
}

var fwCSPolicy = asn1.ObjectIdentifier{2, 23, 140, 1, 4, 1}
var fwSMIMEPolicy = asn1.ObjectIdentifier{2, 23, 140, 1, 5, 1, 1}
var fwDVPolicy = asn1.ObjectIdentifier{2, 23, 140, 1, 2, 1}

// certificates in, out of and across the three scopes
var fwScopePool = []fwScope{
	{},
	{eku: []x509.ExtKeyUsage{x509.ExtKeyUsageServerAuth}},
	{eku: []x509.ExtKeyUsage{x509.ExtKeyUsageClientAuth}},
	{eku: []x509.ExtKeyUsage{x509.ExtKeyUsageEmailProtection}, mail: []string{"a@example.com"}},
	{eku: []x509.ExtKeyUsage{x509.ExtKeyUsageEmailProtection}, pol: []asn1.ObjectIdentifier{fwCSPolicy}},
	{eku: []x509.ExtKeyUsage{x509.ExtKeyUsageCodeSigning}, pol: []asn1.ObjectIdentifier{fwCSPolicy}},
	{pol: []asn1.ObjectIdentifier{fwCSPolicy}},
	{eku: []x509.ExtKeyUsage{x509.ExtKeyUsageTimeStamping, x509.ExtKeyUsageClientAuth}, pol: []asn1.ObjectIdentifier{fwCSPolicy}},
	{eku: []x509.ExtKeyUsage{x509.ExtKeyUsageAny}},
	{unknown: []asn1.ObjectIdentifier{{1, 3, 6, 1, 4, 1, 311, 10, 3, 12}}},
	{eku: []x509.ExtKeyUsage{x509.ExtKeyUsageClientAuth}, pol: []asn1.ObjectIdentifier{fwDVPolicy}},
	{eku: []x509.ExtKeyUsage{x509.ExtKeyUsageClientAuth}, pol: []asn1.ObjectIdentifier{fwSMIMEPolicy}, mail: []string{"a@example.com"}},
	{mail: []string{"a@example.com"}},
}

var fwNames = []string{"e_stub_a", "w_stub_b", "n_stub_c", "e_stub_d"}

// fwStatus: an arbitrary one of the seven defined statuses.
func fwStatus() lint.LintStatus {
	s := zz.Int()
	zz.Assume(s >= 1 && s <= 7)
	return lint.LintStatus(s)
}

func fwSetup(kind, k int, scoped, windowed, mayPanic bool) (lint.Registry, []*fwStub) {
	lint.ZZReset()
	r := lint.ZZNewRegistry()
	var stubs []*fwStub
	for i := 0; i < k; i++ {
		st := &fwStub{name: fwNames[i], src: lint.RFC5280}
		if scoped {
			si := zz.Int()
			zz.Assume(si >= 0 && si < len(fwSources))
			st.src = fwSources[si]
		}
		if windowed {
			st.eff, st.ineff = zz.Time(), zz.Time()
		}
		st.applies = zz.Bool()
		if mayPanic {
			st.panics = zz.Bool()
		}
		st.status = fwStatus()
		st.details = zz.String()
		st.s = lint.ZZAdd(r, kind, i, st.name, st.src, st.eff, st.ineff)
		lint.ZZSetBehaviour(i, st.applies, st.panics, st.status, st.details)
		if st.panics {
			// the panic may come from the applicability test or from the rule body
			st.early = zz.Bool()
			lint.ZZSetPanicsEarly(i, st.early)
		}
		stubs = append(stubs, st)
	}
	lint.ZZClearLog()
	return r, stubs
}

// fwLint runs the public entry point of the given kind on an arbitrary object
// and returns the result set together with the instant the window is judged at.
func fwLint(kind int, r lint.Registry) (*ResultSet, time.Time, *x509.Certificate) {
	switch kind {
	case 0:
		c := zz.Lazy[x509.Certificate]("c")
		if zz.Param("fw.scopepool", 0) > 0 {
			// replayable variant: the scope-relevant content is drawn from a pool and the real scope predicates
			// decide (no stub), so a gate that disagrees with the documented predicate yields a certificate
			i := zz.Int()
			zz.Assume(i >= 0 && i < len(fwScopePool))
			p := fwScopePool[i]
			c.ExtKeyUsage, c.UnknownExtKeyUsage, c.PolicyIdentifiers, c.EmailAddresses, c.OtherNames = p.eku, p.unknown, p.pol, p.mail, nil
		}
		if zz.Param("fw.outofscope", 0) > 0 {
			// a client-authentication certificate: outside the TLS, S/MIME and code-signing scopes
			c.ExtKeyUsage = []x509.ExtKeyUsage{x509.ExtKeyUsageClientAuth}
			c.UnknownExtKeyUsage, c.PolicyIdentifiers, c.EmailAddresses, c.OtherNames = nil, nil, nil, nil
		}
		return LintCertificateEx(c, r), c.NotBefore, c
	case 1:
		c := zz.Lazy[x509.RevocationList]("crl")
		return LintRevocationListEx(c, r), c.ThisUpdate, nil
	}
	o := zz.Lazy[ocsp.Response]("ocsp")
	return LintOcspResponseEx(o, r), o.NextUpdate, nil
}

func fwCount(rs *ResultSet, st lint.LintStatus) int {
	n := 0
	for _, r := range rs.Results {
		if r != nil && r.Status == st {
			n++
		}
	}
	return n
}

// VerifC01ResultSet: complete, well-formed result set for every mix of stub
// behaviours (kind chosen by parameter): one non-nil result per lint keyed by
// its name and carrying its metadata, a defined status, flags exactly
// reflecting the statuses present, the library version.
func VerifC01ResultSet() {
	kind := zz.Param("fw.kind", 0)
	k := zz.Param("fw.k", 2)
	r, stubs := fwSetup(kind, k, zz.Param("fw.scoped", 0) > 0, false, kind == 0 && zz.Param("fw.scoped", 0) == 0)
	rs, _, _ := fwLint(kind, r)
	zz.Assert(rs != nil, "linting a non-nil object returns a result set")
	if rs == nil {
		return
	}
	zz.Assert(rs.Version == 3, "the result set carries the library's major version")
	zz.Assert(len(rs.Results) == k, "exactly one result per lint of the matching kind and no others")
	for _, st := range stubs {
		res := rs.Results[st.name]
		zz.Assert(res != nil, "every lint's result is present and non-nil under the lint's name")
		if res == nil {
			continue
		}
		zz.Assert(res.LintMetadata == st.s.Meta(), "every result carries the metadata of the lint that produced it")
		zz.Assert(res.Status >= lint.NA && res.Status <= lint.Fatal, "every result has one of the seven defined statuses")
	}
	zz.Assert(rs.NoticesPresent == (fwCount(rs, lint.Notice) > 0), "notices_present is true exactly when some result is a notice")
	zz.Assert(rs.WarningsPresent == (fwCount(rs, lint.Warn) > 0), "warnings_present is true exactly when some result is a warning")
	zz.Assert(rs.ErrorsPresent == (fwCount(rs, lint.Error) > 0), "errors_present is true exactly when some result is an error")
	zz.Assert(rs.FatalsPresent == (fwCount(rs, lint.Fatal) > 0), "fatals_present is true exactly when some result is fatal")
	zz.Cover("result set")
}

// VerifC01Guards: nil object => nil; nil registry => the global registry is used.
func VerifC01Guards() {
	zz.Assert(LintCertificateEx(nil, nil) == nil, "a nil certificate yields nil")
	zz.Assert(LintRevocationListEx(nil, nil) == nil, "a nil CRL yields nil")
	zz.Assert(LintOcspResponseEx(nil, nil) == nil, "a nil OCSP response yields nil")
	zz.Cover("guards")
}

func fwEvents(id int) []lint.ZZEvent {
	var out []lint.ZZEvent
	for _, e := range lint.ZZLog() {
		if e.ID == id {
			out = append(out, e)
		}
	}
	return out
}

// VerifFrameworkOrder: one stub lint with arbitrary source, window dates,
// applicability and body outcome under the real entry point.  Assertion groups
// (parameter fw.prop): "C03" window placement, "C04" scope/applicability/
// ordering/identity.
func VerifFrameworkOrder() {
	kind := zz.Param("fw.kind", 0)
	prop := zz.ParamStr("fw.prop", "C04")
	r, stubs := fwSetup(kind, 1, kind == 0, true, kind == 0)
	st := stubs[0]
	rs, target, c := fwLint(kind, r)
	zz.Assert(rs != nil && rs.Results[st.name] != nil, "the lint's result is present")
	if rs == nil || rs.Results[st.name] == nil {
		return
	}
	res := rs.Results[st.name]
	ev := fwEvents(0)
	inScope := true
	if kind == 0 {
		switch st.src {
		case lint.CABFBaselineRequirements:
			inScope = utilIsServerAuth(c)
		case lint.CABFSMIMEBaselineRequirements:
			inScope = utilIsEmail(c)
		case lint.CABFCSBaselineRequirements:
			inScope = utilIsCS(c)
		}
	}
	inWindow := lint.ZZCheckEffective(st.eff, st.ineff, target)
	executed := false
	for _, e := range ev {
		if e.What == "execute" {
			executed = true
		}
	}
	if prop == "C03" {
		if kind == 0 {
			// the deprecated single-lint view (Registry.ByName / BySource -> *lint.Lint) judges the same window
			dl := r.ByName(st.name)
			zz.Assert(dl != nil, "the deprecated lookup finds the certificate lint")
			if dl != nil {
				zz.Assert(dl.EffectiveDate == st.eff && dl.IneffectiveDate == st.ineff, "the deprecated Lint view carries the lint's effective and ineffective dates")
				zz.Assert(dl.CheckEffective(c) == inWindow, "the deprecated Lint view judges the same half-open window")
			}
			for _, bl := range r.BySource(st.src) {
				if bl.Name == st.name {
					zz.Assert(bl.CheckEffective(c) == inWindow, "the deprecated by-source view judges the same half-open window")
				}
			}
		}
		if st.panics && st.early {
			// a panic in the applicability test precedes the window test; the framework's
			// report of it (fatal, certificate lints) is the subject of C02/C04, not of C03
			zz.Cover("applicability test panics")
			zz.Assert(!executed, "the rule body is not run after a panicking applicability test")
			return
		}
		if !inWindow {
			zz.Cover("outside the window")
			zz.Assert(res.Status == lint.NA || res.Status == lint.NE, "an object dated outside the window only ever gets NA or NE")
			zz.Assert(!executed, "the rule body is not run for an object dated outside the window")
		} else {
			zz.Cover("inside the window")
			if inScope && st.applies {
				zz.Assert(executed, "an applicable object dated inside the window is judged by the rule")
			}
		}
		return
	}
	// C04
	if !inScope {
		zz.Cover("out of scope")
		zz.Assert(res.Status == lint.NA, "a certificate outside the source document's scope gets NA")
		zz.Assert(len(ev) == 0, "no instance is created and nothing is run for an out-of-scope certificate")
		return
	}
	zz.Assert(len(ev) >= 2 && ev[0].What == "new" && ev[1].What == "applies", "a fresh instance is created first and asked whether it applies")
	news := 0
	for _, e := range ev {
		if e.What == "new" {
			news++
		}
		if e.What == "applies" || e.What == "execute" {
			zz.Assert(e.Inst == ev[0].Inst, "every call goes to the instance created for this execution")
		}
	}
	zz.Assert(news == 1, "exactly one instance is created per execution")
	switch {
	case st.panics && st.early:
		zz.Cover("applicability test panics")
		zz.Assert(res.Status == lint.Fatal, "a panic in a certificate lint's applicability test is reported as fatal")
	case !st.applies:
		zz.Cover("does not apply")
		zz.Assert(res.Status == lint.NA, "an object the applicability test rejects gets NA")
		zz.Assert(!executed, "the rule body is not run when the lint does not apply")
	case !inWindow:
		zz.Cover("not effective")
		zz.Assert(res.Status == lint.NE, "an applicable object outside the window gets NE")
		zz.Assert(!executed, "the rule body is not run outside the window")
	case st.panics:
		zz.Cover("body panics")
		zz.Assert(executed, "the rule body was run")
		zz.Assert(res.Status == lint.Fatal, "a panicking certificate rule body is reported as fatal")
	default:
		zz.Cover("body verdict")
		zz.Assert(executed, "the rule body was run")
		last := ev[len(ev)-1]
		zz.Assert(last.What == "result" && last.Inst == interface{}(res), "the reported result is the very object the rule body returned")
		zz.Assert(res.Status == st.status && res.Details == st.details, "status and details are exactly what the rule body returned")
	}
}

type fwObj struct {
	c *x509.Certificate
	r *x509.RevocationList
	o *ocsp.Response
}

func fwObject(kind int) *fwObj {
	switch kind {
	case 0:
		return &fwObj{c: zz.Lazy[x509.Certificate]("c")}
	case 1:
		return &fwObj{r: zz.Lazy[x509.RevocationList]("crl")}
	}
	return &fwObj{o: zz.Lazy[ocsp.Response]("ocsp")}
}

func fwRun(kind int, o *fwObj, r lint.Registry) *ResultSet {
	switch kind {
	case 0:
		return LintCertificateEx(o.c, r)
	case 1:
		return LintRevocationListEx(o.r, r)
	}
	return LintOcspResponseEx(o.o, r)
}

// VerifC07Independence: linting one object with a registry and with any
// registry filtered from it (include list chosen arbitrarily) gives the same
// status and details for every selected lint, nothing for the others, and the
// filtered run raises no flag the full run does not raise.
func VerifC07Independence() {
	kind := zz.Param("fw.kind", 0)
	k := zz.Param("fw.k", 2)
	r, stubs := fwSetup(kind, k, false, false, kind == 0)
	var inc []string
	sel := make([]bool, k)
	for i, st := range stubs {
		sel[i] = zz.Bool()
		if sel[i] {
			inc = append(inc, st.name)
		}
	}
	if len(inc) == 0 {
		// an empty filter returns the registry itself; nothing to compare
		return
	}
	fr, err := r.Filter(lint.FilterOptions{IncludeNames: inc})
	zz.Assert(err == nil && fr != nil, "filtering by registered names succeeds")
	if err != nil || fr == nil {
		return
	}
	obj := fwObject(kind)
	full := fwRun(kind, obj, r)
	part := fwRun(kind, obj, fr)
	zz.Assert(full != nil && part != nil, "both runs return a result set")
	if full == nil || part == nil {
		return
	}
	for i, st := range stubs {
		f, p := full.Results[st.name], part.Results[st.name]
		if sel[i] {
			zz.Cover("selected lint")
			zz.Assert(f != nil && p != nil, "a selected lint has a result in both runs")
			if f != nil && p != nil {
				zz.Assert(f.Status == p.Status && f.Details == p.Details, "a selected lint gets the same status and details with the filtered and the full registry")
			}
		} else {
			zz.Cover("unselected lint")
			zz.Assert(p == nil, "an unselected lint has no result in the filtered run")
		}
	}
	zz.Assert(zz.Implies(part.NoticesPresent, full.NoticesPresent), "a notice flag raised by the filtered run is raised by the full run")
	zz.Assert(zz.Implies(part.WarningsPresent, full.WarningsPresent), "a warning flag raised by the filtered run is raised by the full run")
	zz.Assert(zz.Implies(part.ErrorsPresent, full.ErrorsPresent), "an error flag raised by the filtered run is raised by the full run")
	zz.Assert(zz.Implies(part.FatalsPresent, full.FatalsPresent), "a fatal flag raised by the filtered run is raised by the full run")
}

// VerifC04FreshInstance: every execution gets its own instance from the
// registered constructor - also the second, third ... execution of the same
// registered lint (an instance kept from an earlier run would carry state from
// one object into the next).
func VerifC04FreshInstance() {
	kind := zz.Param("fw.kind", 0)
	r, stubs := fwSetup(kind, 1, false, false, false)
	st := stubs[0]
	obj := fwObject(kind)
	var insts []interface{}
	for run := 0; run < 3; run++ {
		lint.ZZClearLog()
		rs := fwRun(kind, obj, r)
		zz.Assert(rs != nil && rs.Results[st.name] != nil, "the lint's result is present")
		news := 0
		for _, e := range fwEvents(0) {
			if e.What == "new" {
				news++
				insts = append(insts, e.Inst)
			}
		}
		zz.Assert(news == 1, "exactly one instance is created per execution")
	}
	zz.Cover("three executions")
	if len(insts) == 3 {
		zz.Assert(insts[0] != insts[1] && insts[1] != insts[2] && insts[0] != insts[2], "executions do not share an instance")
	}
}
