package util

import (
	"github.com/zmap/zcrypto/encoding/asn1"
	"github.com/zmap/zcrypto/x509"
	zz "github.com/zmap/zlint/v3/zzverif"
)

// arc-wise OID comparison (oracle; does not use ObjectIdentifier.Equal/String)
func c04Is(o asn1.ObjectIdentifier, arcs ...int) bool {
	if len(o) != len(arcs) {
		return false
	}
	for i := range arcs {
		if o[i] != arcs[i] {
			return false
		}
	}
	return true
}

func c04HasPrefix(o asn1.ObjectIdentifier, arcs ...int) bool {
	if len(o) < len(arcs) {
		return false
	}
	for i := range arcs {
		if o[i] != arcs[i] {
			return false
		}
	}
	return true
}

func c04NoEKU(c *x509.Certificate) bool {
	return len(c.ExtKeyUsage) == 0 && len(c.UnknownExtKeyUsage) == 0
}

func c04HasEKU(c *x509.Certificate, want x509.ExtKeyUsage) bool {
	for _, e := range c.ExtKeyUsage {
		if e == x509.ExtKeyUsageAny || e == want {
			return true
		}
	}
	return false
}

// VerifC04ServerAuthScope: TLS BR scope = no EKU at all, or any/serverAuth, or one of the four BR policy OIDs.
func VerifC04ServerAuthScope() {
	c := zz.Lazy[x509.Certificate]("c")
	got := IsServerAuthCert(c)
	want := c04NoEKU(c) || c04HasEKU(c, x509.ExtKeyUsageServerAuth)
	if !want {
		for _, p := range c.PolicyIdentifiers {
			// 2.23.140.1.1 (EV), 2.23.140.1.2.{1,2,3} (DV, OV, IV)
			if c04Is(p, 2, 23, 140, 1, 1) || c04Is(p, 2, 23, 140, 1, 2, 1) || c04Is(p, 2, 23, 140, 1, 2, 2) || c04Is(p, 2, 23, 140, 1, 2, 3) {
				want = true
			}
		}
	}
	if want {
		zz.Cover("server-auth scope")
	} else {
		zz.Cover("outside server-auth scope")
	}
	zz.Assert(got == want, "IsServerAuthCert holds exactly for certificates with a server-auth indication")
}

// VerifC04EmailScope: S/MIME BR scope = (e-mail SAN and (no EKU, any, emailProtection)) or an S/MIME BR policy OID 2.23.140.1.5.{1..4}.{1..3}.
func VerifC04EmailScope() {
	c := zz.Lazy[x509.Certificate]("c")
	got := IsEmailProtectionCert(c)
	emailSAN := false
	for _, e := range c.EmailAddresses {
		if e != "" {
			emailSAN = true
		}
	}
	for _, o := range c.OtherNames {
		if c04Is(o.TypeID, 1, 3, 6, 1, 5, 5, 7, 8, 9) && len(o.Value.Bytes) != 0 {
			emailSAN = true
		}
	}
	want := emailSAN && (c04NoEKU(c) || c04HasEKU(c, x509.ExtKeyUsageEmailProtection))
	if !want {
		for _, p := range c.PolicyIdentifiers {
			if len(p) == 7 && c04HasPrefix(p, 2, 23, 140, 1, 5) && p[5] >= 1 && p[5] <= 4 && p[6] >= 1 && p[6] <= 3 {
				want = true
			}
		}
	}
	if want {
		zz.Cover("email scope")
	} else {
		zz.Cover("outside email scope")
	}
	zz.Assert(got == want, "IsEmailProtectionCert holds exactly for certificates with an e-mail protection indication")
}

// VerifC04CodeSigningScope: CS BR scope = policy 2.23.140.1.3 or 2.23.140.1.4.1.
func VerifC04CodeSigningScope() {
	c := zz.Lazy[x509.Certificate]("c")
	got := IsCodeSigning(c.PolicyIdentifiers)
	want := false
	for _, p := range c.PolicyIdentifiers {
		if c04Is(p, 2, 23, 140, 1, 3) || c04Is(p, 2, 23, 140, 1, 4, 1) {
			want = true
		}
	}
	if want {
		zz.Cover("code-signing scope")
	} else {
		zz.Cover("outside code-signing scope")
	}
	zz.Assert(got == want, "IsCodeSigning holds exactly for certificates with a code-signing policy")
}
