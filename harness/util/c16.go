package util

import (
	"math/big"

	zz "github.com/zmap/zlint/v3/zzverif"
)

// VerifC16TableFacts (concrete): every table entry lies in 2..751 and every
// prime below 752 is in the table.
func VerifC16TableFacts() {
	in := map[int64]bool{}
	for _, p := range bigIntPrimes {
		v := p.Int64()
		zz.Assert(p.IsInt64() && v >= 2 && v <= 751, "every trial divisor lies in 2..751")
		in[v] = true
	}
	for d := int64(2); d <= 751; d++ {
		prime := true
		for q := int64(2); q*q <= d; q++ {
			if d%q == 0 {
				prime = false
				break
			}
		}
		if prime {
			zz.Assert(in[d], "every prime below 752 is a trial divisor")
		}
	}
	zz.Cover("table")
}

// VerifC16TrialDivision: when PrimeNoSmallerThan752(n) answers true, no integer
// in 2..751 divides n (n an arbitrary positive integer).
func VerifC16TrialDivision() {
	n := zz.BigInt()
	zz.Assume(n.Sign() > 0)
	if !PrimeNoSmallerThan752(n) {
		return
	}
	for d := 2; d <= 751; d++ {
		r := new(big.Int).Mod(n, big.NewInt(int64(d)))
		zz.Assert(r.Sign() != 0, "when the trial division finds no factor, no integer in 2..751 divides the modulus")
	}
}

// VerifC16TrialConcrete: reachability witnesses for both answers (concrete).
func VerifC16TrialConcrete() {
	zz.Assert(PrimeNoSmallerThan752(big.NewInt(757)), "757 has no factor below 752")
	zz.Assert(PrimeNoSmallerThan752(big.NewInt(757*761)), "757*761 has no factor below 752")
	zz.Assert(!PrimeNoSmallerThan752(big.NewInt(751*757)), "751*757 has a factor below 752")
	zz.Assert(!PrimeNoSmallerThan752(big.NewInt(2)), "2 has a factor below 752")
	zz.Cover("both answers")
}

// VerifC16TrialSound: when PrimeNoSmallerThan752(n) is false, some table entry divides n.
func VerifC16TrialSound() {
	n := zz.BigInt()
	zz.Assume(n.Sign() > 0)
	// assume no table entry divides n (the entries are in 2..751 by VerifC16TableFacts)
	for _, p := range bigIntPrimes {
		zz.Assume(new(big.Int).Mod(n, p).Sign() != 0)
	}
	zz.Cover("coprime to the table")
	zz.Assert(PrimeNoSmallerThan752(n), "a modulus no trial divisor divides is not reported")
}
