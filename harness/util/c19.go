package util

import (
	"net"

	zz "github.com/zmap/zlint/v3/zzverif"
)

// special-purpose blocks named by the property
var c19V4Blocks = []string{
	"10.0.0.0/8", "172.16.0.0/12", "192.168.0.0/16", // RFC 1918
	"127.0.0.0/8",                                       // loopback
	"169.254.0.0/16",                                    // link-local
	"100.64.0.0/10",                                     // shared address space
	"192.0.2.0/24", "198.51.100.0/24", "203.0.113.0/24", // documentation
	"198.18.0.0/15", // benchmarking
	"224.0.0.0/4",   // multicast
	"240.0.0.0/4",   // class E incl. broadcast
	"0.0.0.0/32",    // unspecified
}

var c19V6Blocks = []string{
	"::1/128",       // loopback
	"fc00::/7",      // unique local
	"fe80::/10",     // link-local
	"ff00::/8",      // multicast
	"2001:db8::/32", // documentation
	"2002::/16",     // 6to4
	"100::/64",      // discard
}

var c19Public = []string{"8.8.8.8", "1.1.1.1", "9.9.9.9", "2001:4860:4860::8888", "2606:4700:4700::1111"}

func c19IP4() net.IP { return net.IP(zz.BytesN(4)) }

func c19Mapped(ip4 net.IP) net.IP {
	return net.IP{0, 0, 0, 0, 0, 0, 0, 0, 0, 0, 0xff, 0xff, ip4[0], ip4[1], ip4[2], ip4[3]}
}

// A1 (IPv4): every address of every special block is reserved.
func VerifC19BlocksV4() {
	ip := c19IP4()
	res := IsIANAReserved(ip)
	for _, b := range c19V4Blocks {
		_, n, err := net.ParseCIDR(b)
		zz.Assert(err == nil, "block parses")
		if n.Contains(ip) {
			zz.Cover("in " + b)
			zz.Assert(res, "every address of the special-purpose IPv4 blocks is reserved")
		}
	}
	if !res {
		zz.Cover("not reserved")
	}
}

// A1 (IPv6)
func VerifC19BlocksV6() {
	ip := net.IP(zz.BytesN(16))
	res := IsIANAReserved(ip)
	for _, b := range c19V6Blocks {
		_, n, _ := net.ParseCIDR(b)
		if n.Contains(ip) {
			zz.Cover("in " + b)
			zz.Assert(res, "every address of the special-purpose IPv6 blocks is reserved")
		}
	}
}

// A1 (public addresses are not reserved) - concrete
func VerifC19Public() {
	for _, s := range c19Public {
		ip := net.ParseIP(s)
		zz.Assert(!IsIANAReserved(ip), "well-known public addresses are not reserved")
		if v4 := ip.To4(); v4 != nil {
			zz.Assert(!IsIANAReserved(v4), "well-known public addresses are not reserved (4-byte form)")
		}
	}
	zz.Cover("public")
}

// A2: the 4-byte and the IPv4-mapped 16-byte form are classified identically.
func VerifC19Mapped() {
	ip := c19IP4()
	zz.Cover("mapped")
	zz.Assert(IsIANAReserved(ip) == IsIANAReserved(c19Mapped(ip)), "4-byte and IPv4-mapped form are classified identically")
}

func c19Net4() net.IPNet {
	ones := zz.Int()
	zz.Assume(ones >= 0 && ones <= 32)
	mask := net.CIDRMask(ones, 32)
	base := c19IP4()
	return net.IPNet{IP: base.Mask(mask), Mask: mask}
}

// A3: a network that contains a reserved address intersects reserved space.
func VerifC19ContainsV4() {
	n := c19Net4()
	ip := c19IP4()
	if n.Contains(ip) && IsIANAReserved(ip) {
		zz.Cover("contains reserved")
		zz.Assert(IntersectsIANAReserved(n), "a network containing a reserved address intersects reserved space")
	}
}

// A4: any network containing an intersecting network also intersects.
func VerifC19MonotoneV4() {
	n1 := c19Net4()
	n2 := c19Net4()
	o1, _ := n1.Mask.Size()
	o2, _ := n2.Mask.Size()
	if o2 <= o1 && n2.Contains(n1.IP) && IntersectsIANAReserved(n1) {
		zz.Cover("supernet of intersecting")
		zz.Assert(IntersectsIANAReserved(n2), "a network containing an intersecting network also intersects")
	}
}

// A4, inductive step: the network one bit shorter than an intersecting network
// (its parent in the CIDR tree) intersects.  Every network containing n1 is
// reached from n1 by finitely many such steps, so the step implies A4 for all
// supernets (the induction over the prefix length is on paper).
func VerifC19MonotoneStepV4() {
	n1 := c19Net4()
	o1, _ := n1.Mask.Size()
	if o1 < 1 {
		return
	}
	m2 := net.CIDRMask(o1-1, 32)
	n2 := net.IPNet{IP: n1.IP.Mask(m2), Mask: m2}
	if IntersectsIANAReserved(n1) {
		zz.Cover("parent of intersecting")
		zz.Assert(n2.Contains(n1.IP), "the parent network contains the network")
		zz.Assert(IntersectsIANAReserved(n2), "the network one bit shorter than an intersecting network also intersects")
	}
}

// A5: for a single-address network the answer equals the address test.
func VerifC19HostNet() {
	ip := c19IP4()
	n := net.IPNet{IP: ip, Mask: net.CIDRMask(32, 32)}
	zz.Cover("host network")
	zz.Assert(IntersectsIANAReserved(n) == IsIANAReserved(ip), "a /32 network intersects reserved space iff its address is reserved")
}
