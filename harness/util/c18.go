package util

import (
	"strings"
	"time"

	zz "github.com/zmap/zlint/v3/zzverif"
)

// instant comparison written with Unix()/Nanosecond() only (independent of Before/After)
func c18Before(a, b time.Time) bool {
	if a.Unix() != b.Unix() {
		return a.Unix() < b.Unix()
	}
	return a.Nanosecond() < b.Nanosecond()
}

// VerifC18Valid: GTLDPeriod.Valid(when) == nil  <=>  when >= delegation && (no removal || when <= removal),
// for arbitrary date strings (time.Parse is an uninterpreted function of its
// argument, so the claim holds whatever the dates parse to) and every instant.
func VerifC18Valid() {
	p := GTLDPeriod{GTLD: zz.String(), DelegationDate: c18Date(false), RemovalDate: c18Date(true)}
	when := zz.Time()
	err := p.Valid(when)
	d, _ := time.Parse(GTLDPeriodDateFormat, p.DelegationDate)
	ok := !c18Before(when, d)
	if ok && p.RemovalDate != "" {
		r, _ := time.Parse(GTLDPeriodDateFormat, p.RemovalDate)
		ok = !c18Before(r, when)
	}
	if ok {
		zz.Cover("inside the period")
		zz.Assert(err == nil, "an instant inside the delegation period is valid")
	} else {
		zz.Cover("outside the period")
		zz.Assert(err != nil, "an instant outside the delegation period is not valid")
	}
}

// VerifC18TableFacts (concrete, every entry): keyed by its own lower-case name,
// parseable delegation date, removal date empty or parseable and not earlier.
func VerifC18TableFacts() {
	n := 0
	for k, p := range tldMap {
		n++
		zz.Assert(k == strings.ToLower(p.GTLD), "every table entry is keyed by its own lower-case name")
		zz.Assert(k == strings.ToLower(k) && k != "" && !strings.Contains(k, "."), "table keys are non-empty lower-case single labels")
		zz.Assert(zz.Matches(k, "^[\\x00-\\x7f]*$"), "table keys are ASCII")
		d, err := time.Parse(GTLDPeriodDateFormat, p.DelegationDate)
		zz.Assert(err == nil, "every table entry has a parseable delegation date")
		if p.RemovalDate != "" {
			r, err := time.Parse(GTLDPeriodDateFormat, p.RemovalDate)
			zz.Assert(err == nil, "a recorded removal date is parseable")
			zz.Assert(!r.Before(d), "a removal date is not earlier than the delegation date")
		}
	}
	zz.Assert(n >= 1000, "the delegation table is populated")
	zz.Cover("table")
}

var c18Pool = []string{"2015-08-28", "2023-06-05", "1985-01-01", ""}

// c18Date: an arbitrary date string (time.Parse is then an uninterpreted
// function of it), or - in the replayable variant of a job - one of a few
// concrete dates, with "" allowed for removal dates only.
func c18Date(removal bool) string {
	if zz.Param("c18.pool", 0) == 0 {
		return zz.String()
	}
	i := zz.Int()
	n := len(c18Pool)
	if !removal {
		n--
	}
	zz.Assume(i >= 0 && i < n)
	return c18Pool[i]
}

// c18Domain: an arbitrary domain of lead+1 labels (any of them may be
// empty): leading labels, each followed by a dot, then the right-most label.
func c18Domain() (string, string) {
	label := zz.String()
	zz.Assume(!strings.Contains(label, "."))
	lead := zz.Param("c18.lead", 2)
	domain := ""
	for i := 0; i < lead; i++ {
		l := zz.String()
		zz.Assume(!strings.Contains(l, "."))
		domain += l + "."
	}
	return domain + label, label
}

// c18Table installs an arbitrary delegation table of n entries that satisfies
// the table facts (VerifC18TableFacts checks them for the generated table):
// distinct lower-case ASCII single-label keys, parseable delegation date,
// removal date empty or parseable.
func c18Table(n int) ([]string, []GTLDPeriod) {
	tbl := map[string]GTLDPeriod{}
	var keys []string
	var ps []GTLDPeriod
	for i := 0; i < n; i++ {
		k := zz.String()
		zz.Assume(zz.Matches(k, "^[\\x00-\\x2d\\x2f-@\\[-\\x7f]*$"))
		for _, o := range keys {
			zz.Assume(o != k)
		}
		p := GTLDPeriod{GTLD: k, DelegationDate: c18Date(false), RemovalDate: c18Date(true)}
		_, err := time.Parse(GTLDPeriodDateFormat, p.DelegationDate)
		zz.Assume(err == nil)
		if p.RemovalDate != "" {
			_, err := time.Parse(GTLDPeriodDateFormat, p.RemovalDate)
			zz.Assume(err == nil)
		}
		tbl[k] = p
		keys = append(keys, k)
		ps = append(ps, p)
	}
	tldMap = tbl
	return keys, ps
}

func c18Within(when time.Time, p GTLDPeriod) bool {
	d, _ := time.Parse(GTLDPeriodDateFormat, p.DelegationDate)
	if c18Before(when, d) {
		return false
	}
	if p.RemovalDate == "" {
		return true
	}
	r, _ := time.Parse(GTLDPeriodDateFormat, p.RemovalDate)
	return !c18Before(r, when)
}

// VerifC18HasValidTLD: for an arbitrary well-formed table, domain and instant,
// HasValidTLD answers exactly what the entry of the right-most label (compared
// case-insensitively) says, and IsInTLDMap ignores the dates.
func VerifC18HasValidTLD() {
	saved := tldMap
	defer func() { tldMap = saved }()
	keys, ps := c18Table(zz.Param("c18.entries", 2))
	domain, label := c18Domain()
	when := zz.Time()
	got := HasValidTLD(domain, when)
	ever := IsInTLDMap(label)
	for i, k := range keys {
		if strings.EqualFold(label, k) {
			zz.Cover("label in table")
			zz.Assert(ever, "a label in the table was ever a TLD, whatever the dates")
			if c18Within(when, ps[i]) {
				zz.Cover("inside the period")
				zz.Assert(got, "a name under a TLD inside its delegation period has a valid TLD")
			} else {
				zz.Cover("outside the period")
				zz.Assert(!got, "a name under a TLD outside its delegation period has no valid TLD")
			}
			return
		}
	}
	zz.Cover("label not in table")
	zz.Assert(!got, "a name whose right-most label is not in the table has no valid TLD")
	zz.Assert(!ever, "a label that is not in the table never was a TLD")
}

// VerifC18Boundaries (concrete, every entry of the real table): the answers at
// the delegation and removal instants and one second either side.
func VerifC18Boundaries() {
	for k, p := range tldMap {
		d, _ := time.Parse(GTLDPeriodDateFormat, p.DelegationDate)
		name := "www.Example." + strings.ToUpper(k)
		zz.Assert(HasValidTLD(name, d), "valid at the delegation instant")
		zz.Assert(!HasValidTLD(name, d.Add(-time.Second)), "not valid one second before delegation")
		zz.Assert(IsInTLDMap(strings.ToUpper(k)), "ever a TLD")
		if p.RemovalDate != "" {
			r, _ := time.Parse(GTLDPeriodDateFormat, p.RemovalDate)
			zz.Assert(HasValidTLD(name, r), "valid at the removal instant")
			zz.Assert(!HasValidTLD(name, r.Add(time.Second)), "not valid one second after removal")
		} else {
			zz.Assert(HasValidTLD(name, d.AddDate(50, 0, 0)), "still valid fifty years on")
		}
	}
	zz.Cover("boundaries")
}
