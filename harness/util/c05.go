package util

import (
	"github.com/zmap/zcrypto/x509"
	zz "github.com/zmap/zlint/v3/zzverif"
)

// VerifC05SubjInTLD: the helper that walks "DNS names plus common name" (used
// by the applicability tests of the .onion lints on nearly every certificate)
// stores nothing into the certificate, whether or not the parsed DNSNames slice
// has spare capacity (append then aliases its backing array).
func VerifC05SubjInTLD() {
	c := zz.Lazy[x509.Certificate]("c")
	zz.MonitorStart()
	in := CertificateSubjInTLD(c, "onion")
	zz.MonitorStop()
	if in {
		zz.Cover("in the TLD")
	} else {
		zz.Cover("not in the TLD")
	}
	zz.Assert(zz.WriteCount() == 0, "[monitor] walking the subject's names stores nothing into the certificate")
}
