package cabf_br

import (
	"net"
	"time"

	"github.com/zmap/zcrypto/x509"
	"github.com/zmap/zlint/v3/lint"
	"github.com/zmap/zlint/v3/util"
	zz "github.com/zmap/zlint/v3/zzverif"
)

// Lint-level clauses of C18 and C19: the lints report exactly what the util
// predicates say about the names / addresses of the certificate.  Two variants
// each: "symbolic" (arbitrary certificate; the util predicates are uninterpreted
// functions of their arguments, so the claim is about which values the lint
// hands to them and how it combines the answers) and "pool" (names drawn from
// a concrete pool, the real predicates evaluated on them; replayable).

var c18CNPool = []string{"", "localhost", "mail server.corp", "www.example.com", "www.example.invalidtld", "10.0.0.1", "intranet", "a@example.com", "EXAMPLE.COM"}
var c18DNSPool = []string{"www.example.com", "example.invalidtld", "localhost", "a.b.onion", "xn--p1ai.example.museum"}

func c18Pick(pool []string) string {
	i := zz.Int()
	zz.Assume(i >= 0 && i < len(pool))
	return pool[i]
}

func c18Fix(c *x509.Certificate) {
	c.IsCA, c.SelfSigned, c.BasicConstraintsValid = false, false, false
	c.NotBefore = time.Date(2021, 3, 1, 0, 0, 0, 0, time.UTC)
	c.NotAfter = time.Date(2021, 9, 1, 0, 0, 0, 0, time.UTC)
	c.EmailAddresses, c.IPAddresses, c.URIs = nil, nil, nil
	c.IANDNSNames, c.IANEmailAddresses, c.IANURIs, c.IANIPAddresses = nil, nil, nil, nil
}

// VerifC18TLDLint: e_dnsname_not_valid_tld reports an error for a subscriber
// certificate exactly when its non-IP common name or one of its DNS names has
// no valid TLD at notBefore.
func VerifC18TLDLint() {
	c := zz.Lazy[x509.Certificate]("c")
	if zz.Param("pool", 0) > 0 {
		c18Fix(c)
		c.Subject.CommonName = c18Pick(c18CNPool)
		c.DNSNames = []string{c18Pick(c18DNSPool)}
	}
	c = zz.Realise(c)
	l := NewDNSNameValidTLD()
	if !l.CheckApplies(c) {
		zz.Cover("does not apply")
		zz.Assert(c.IsCA || c.SelfSigned || (len(c.DNSNames) == 0), "the TLD lint applies to every subscriber certificate with DNS names")
		return
	}
	res := l.Execute(c)
	bad := false
	cn := c.Subject.CommonName
	if cn != "" && net.ParseIP(cn) == nil && !util.HasValidTLD(cn, c.NotBefore) {
		bad = true
	}
	for _, d := range c.DNSNames {
		if !util.HasValidTLD(d, c.NotBefore) {
			bad = true
		}
	}
	zz.Assert(res != nil, "the lint returns a result")
	if res == nil {
		return
	}
	if bad {
		zz.Cover("a name without valid TLD")
		zz.Assert(res.Status == lint.Error, "a common name or DNS name without a valid TLD at notBefore is reported as an error")
	} else {
		zz.Cover("all names have a valid TLD")
		zz.Assert(res.Status == lint.Pass, "a certificate whose names all have a valid TLD at notBefore passes")
	}
}

var c19CNPool = []string{"", "www.example.com", "10.0.0.1", "8.8.8.8", "192.168.1.1", "::1", "fc00::1", "FE80::1", "ff02::1", "2001:db8::1", "2606:4700:4700::1111", "a000::1", "127.0.0.1", "255.1.2.3"}

// VerifC19SubjectIPLint: e_subject_contains_reserved_ip reports an error
// exactly when the common name is an IP literal that is reserved.
func VerifC19SubjectIPLint() {
	c := zz.Lazy[x509.Certificate]("c")
	if zz.Param("pool", 0) > 0 {
		c18Fix(c)
		c.DNSNames = nil
		c.Subject.CommonName = c18Pick(c19CNPool)
	}
	c = zz.Realise(c)
	l := NewSubjectReservedIP()
	if !l.CheckApplies(c) {
		zz.Cover("does not apply")
		return
	}
	res := l.Execute(c)
	ip := net.ParseIP(c.Subject.CommonName)
	want := ip != nil && util.IsIANAReserved(ip)
	zz.Assert(res != nil, "the lint returns a result")
	if res == nil {
		return
	}
	if want {
		zz.Cover("reserved address in the common name")
		zz.Assert(res.Status == lint.Error, "a reserved IP address in the common name is reported as an error")
	} else {
		zz.Cover("no reserved address in the common name")
		zz.Assert(res.Status == lint.Pass, "a common name that is not a reserved IP address passes")
	}
}

// VerifC19SANIPLint: e_ext_san_contains_reserved_ip reports an error exactly
// when one of the iPAddress SANs is reserved.
func VerifC19SANIPLint() {
	c := zz.Lazy[x509.Certificate]("c")
	c = zz.Realise(c)
	l := NewSANReservedIP()
	if !l.CheckApplies(c) {
		zz.Cover("does not apply")
		return
	}
	res := l.Execute(c)
	want := false
	for _, ip := range c.IPAddresses {
		if util.IsIANAReserved(ip) {
			want = true
		}
	}
	zz.Assert(res != nil, "the lint returns a result")
	if res == nil {
		return
	}
	if want {
		zz.Cover("reserved SAN address")
		zz.Assert(res.Status == lint.Error, "a reserved iPAddress SAN is reported as an error")
	} else {
		zz.Cover("no reserved SAN address")
		zz.Assert(res.Status == lint.Pass, "a certificate without reserved iPAddress SANs passes")
	}
}

// VerifC19NCLint: e_ext_nc_intersects_reserved_ip reports an error exactly when
// a permitted iPAddress name constraint intersects reserved space.
func VerifC19NCLint() {
	c := zz.Lazy[x509.Certificate]("c")
	l := NewNCReservedIPNet()
	if !l.CheckApplies(c) {
		zz.Cover("does not apply")
		return
	}
	res := l.Execute(c)
	want := false
	for _, n := range c.PermittedIPAddresses {
		if util.IntersectsIANAReserved(n.Data) {
			want = true
		}
	}
	zz.Assert(res != nil, "the lint returns a result")
	if res == nil {
		return
	}
	if want {
		zz.Cover("intersecting constraint")
		zz.Assert(res.Status == lint.Error, "a permitted address constraint that intersects reserved space is reported as an error")
	} else {
		zz.Cover("no intersecting constraint")
		zz.Assert(res.Status == lint.Pass, "a certificate without intersecting permitted address constraints passes")
	}
}
