package community

import (
	"crypto/rsa"
	"math/big"

	"github.com/zmap/zcrypto/x509"
	"github.com/zmap/zlint/v3/lint"
	zz "github.com/zmap/zlint/v3/zzverif"
)

// VerifC16FermatSound: any factorisation checkPrimeFactorsTooClose reports
// multiplies back to the modulus (n an arbitrary positive integer, rounds up
// to the stated bound).
func VerifC16FermatSound() {
	n := zz.BigInt()
	zz.Assume(n.Sign() > 0)
	rounds := zz.Int()
	zz.Assume(rounds >= 0 && rounds <= zz.Param("c16.rounds", 3))
	err := checkPrimeFactorsTooClose(n, rounds)
	if err == nil {
		zz.Cover("no factorisation reported")
		return
	}
	zz.Cover("factorisation reported")
	f := zz.FmtBigArgs(err.Error())
	zz.Assert(len(f) == 2, "the report names two factors")
	if len(f) == 2 {
		zz.Assert(new(big.Int).Mul(f[0], f[1]).Cmp(n) == 0, "the reported factors multiply back to the modulus")
	}
}

// VerifC16FermatLint: the lint hands the certificate's modulus and its
// configured number of rounds to the search and reports an error exactly when
// the search reports a factorisation.
func VerifC16FermatLint() {
	c := zz.Lazy[x509.Certificate]("c")
	key, ok := c.PublicKey.(*rsa.PublicKey)
	zz.Assume(ok && key.N.Sign() > 0 && key.E > 0)
	rounds := zz.Int()
	zz.Assume(rounds >= 0 && rounds <= zz.Param("c16.rounds", 3))
	l := NewFermatFactorization().(*fermatFactorization)
	l.Rounds = rounds
	zz.Assert(l.CheckApplies(c), "the Fermat lint applies to every RSA key")
	res := l.Execute(c)
	want := checkPrimeFactorsTooClose(key.N, rounds)
	if want != nil {
		zz.Cover("factorisation reported")
		zz.Assert(res.Status == lint.Error, "a found factorisation is reported as an error")
	} else {
		zz.Cover("no factorisation reported")
		zz.Assert(res.Status == lint.Pass, "no factorisation within the rounds passes")
	}
}
