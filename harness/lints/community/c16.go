package community

import (
	"crypto/rsa"
	"math/big"

	"github.com/zmap/zcrypto/x509"
	"github.com/zmap/zlint/v3/lint"
	zz "github.com/zmap/zlint/v3/zzverif"
)

// VerifC16FermatSound: any factorisation checkPrimeFactorsTooClose reports
// multiplies back to the modulus (n an arbitrary positive integer, rounds up
// to the stated bound).
func VerifC16FermatSound() {
	n := zz.BigInt()
	zz.Assume(n.Sign() > 0)
	rounds := zz.Int()
	zz.Assume(rounds >= 0 && rounds <= zz.Param("c16.rounds", 3))
	err := checkPrimeFactorsTooClose(n, rounds)
	if err == nil {
		zz.Cover("no factorisation reported")
		return
	}
	zz.Cover("factorisation reported")
	f := zz.FmtBigArgs(err.Error())
	zz.Assert(len(f) == 2, "the report names two factors")
	if len(f) == 2 {
		zz.Assert(new(big.Int).Mul(f[0], f[1]).Cmp(n) == 0, "the reported factors multiply back to the modulus")
	}
}

// VerifC16FermatLint: the lint hands the certificate's modulus and its
// configured number of rounds to the search and reports an error exactly when
// the search reports a factorisation.
func VerifC16FermatLint() {
	c := zz.Lazy[x509.Certificate]("c")
	key, ok := c.PublicKey.(*rsa.PublicKey)
	zz.Assume(ok && key.N.Sign() > 0 && key.E > 0)
	rounds := zz.Int()
	zz.Assume(rounds >= 0 && rounds <= zz.Param("c16.rounds", 3))
	l := NewFermatFactorization().(*fermatFactorization)
	l.Rounds = rounds
	zz.Assert(l.CheckApplies(c), "the Fermat lint applies to every RSA key")
	res := l.Execute(c)
	want := checkPrimeFactorsTooClose(key.N, rounds)
	if want != nil {
		zz.Cover("factorisation reported")
		zz.Assert(res.Status == lint.Error, "a found factorisation is reported as an error")
	} else {
		zz.Cover("no factorisation reported")
		zz.Assert(res.Status == lint.Pass, "no factorisation within the rounds passes")
	}
}

// VerifC16FermatComplete: completeness of the search.  Every modulus that is a
// product of two distinct factors p < q of equal parity can be written
// n = A*A - d*d with A = (p+q)/2, d = (q-p)/2 >= 1 (p = A-d >= 2); the search
// visits a = floor(sqrt(n))+1, +2, ... and must report a factorisation no later
// than the round in which a reaches A.  Primality of p and q is not assumed
// (for composite factors an earlier representation may be reported instead).
func VerifC16FermatComplete() {
	A, d := zz.BigInt(), zz.BigInt()
	one := big.NewInt(1)
	zz.Assume(d.Sign() > 0)
	zz.Assume(A.Cmp(new(big.Int).Add(d, one)) > 0)
	n := new(big.Int).Sub(new(big.Int).Mul(A, A), new(big.Int).Mul(d, d))
	rounds := zz.Int()
	zz.Assume(rounds >= 0 && rounds <= zz.Param("c16.rounds", 3))
	// k = index of the round in which a == A
	k := new(big.Int).Sub(A, new(big.Int).Add(new(big.Int).Sqrt(n), one))
	zz.Assert(k.Sign() >= 0, "the search starts at or below (p+q)/2")
	// explicit case split on (rounds, k): every path hands the solver a concrete
	// round count and a concrete index, which keeps the nonlinear query small
	for r := 0; r <= zz.Param("c16.rounds", 3); r++ {
		if rounds != r {
			continue
		}
		for j := 0; j < r; j++ {
			if k.Cmp(big.NewInt(int64(j))) != 0 {
				continue
			}
			zz.Cover("close factors")
			err := checkPrimeFactorsTooClose(n, r)
			zz.Assert(err != nil, "a product of two distinct factors within the configured rounds is reported")
			return
		}
		zz.Cover("factors too far apart")
		return
	}
}
