package main

import (
	"os"
	"strings"

	"github.com/zmap/zlint/v3/lint"
	zz "github.com/zmap/zlint/v3/zzverif"
)

func c15Has(log []string, prefix string) int {
	n := 0
	for _, l := range log {
		if strings.HasPrefix(l, prefix) {
			n++
		}
	}
	return n
}

func c15Index(log []string, prefix string) int {
	for i, l := range log {
		if strings.HasPrefix(l, prefix) {
			return i
		}
	}
	return -1
}

// VerifC15DoLint: doLint under environment stubs (arbitrary file contents,
// arbitrary outcome of every decoder, parser and encoder).  Default output
// mode (no -pretty, -summary, -longSummary).
func VerifC15DoLint() {
	prettyprint, summary, longSummary = false, false, false
	inform := zz.ParamStr("c15.format", "pem")
	reg := lint.NewRegistry()
	zz.Tag(reg, "selected-registry")
	exited := false
	func() {
		defer func() {
			if r := recover(); r != nil {
				exited = true
			}
		}()
		doLint(os.Stdin, inform, reg)
	}()
	log := zz.EnvLog()
	writes := c15Has(log, "Write(")
	if exited {
		zz.Cover("fails closed")
		zz.Assert(c15Has(log, "Fatal") == 1, "the tool exits through log.Fatal")
		zz.Assert(writes == 0, "for input it cannot decode or parse the tool exits non-zero without printing a result object")
		return
	}
	zz.Cover("prints results")
	// what was parsed, and from which bytes
	want := map[string]string{"pem": "env:pem", "der": "env:file", "base64": "env:b64"}[inform]
	pc, pr := c15Has(log, "ParseCertificate("), c15Has(log, "ParseRevocationList(")
	zz.Assert(pc+pr == 1, "exactly one parser is called")
	zz.Assert(c15Has(log, "ParseCertificate("+want+")")+c15Has(log, "ParseRevocationList("+want+")") == 1, "the parser is handed the bytes the chosen input format yields")
	if pr == 1 {
		zz.Cover("CRL")
		zz.Assert(inform == "pem", "a CRL is only recognised through its PEM armor")
		zz.Assert(c15Has(log, "LintRevocationListEx(env:ParseRevocationList,selected-registry)") == 1, "the parsed CRL is linted with the selected registry")
	} else {
		zz.Cover("certificate")
		zz.Assert(c15Has(log, "LintCertificateEx(env:ParseCertificate,selected-registry)") == 1, "the parsed certificate is linted with the selected registry")
	}
	zz.Assert(c15Has(log, "json.Marshal(env:results)") == 1, "the Results of the library's result set are what is encoded")
	zz.Assert(writes == 2 && c15Index(log, "Write(env:json)") >= 0 && log[len(log)-1] == "Write(\"\\n\")", "standard output gets exactly the encoded results followed by a newline")
}
