package main

import (
	"io"

	log "github.com/sirupsen/logrus"
	"os"
	"regexp"
	"strings"

	"github.com/zmap/zlint/v3/lint"
	zz "github.com/zmap/zlint/v3/zzverif"
)

func c15Has(log []string, prefix string) int {
	n := 0
	for _, l := range log {
		if strings.HasPrefix(l, prefix) {
			n++
		}
	}
	return n
}

func c15Index(log []string, prefix string) int {
	for i, l := range log {
		if strings.HasPrefix(l, prefix) {
			return i
		}
	}
	return -1
}

// VerifC15DoLint: doLint under environment stubs (arbitrary file contents,
// arbitrary outcome of every decoder, parser and encoder).  Default output
// mode (no -pretty, -summary, -longSummary).
func VerifC15DoLint() {
	prettyprint, summary, longSummary = false, false, false
	inform := zz.ParamStr("c15.format", "pem")
	reg := lint.NewRegistry()
	zz.Tag(reg, "selected-registry")
	exited := false
	func() {
		defer func() {
			if r := recover(); r != nil {
				exited = true
			}
		}()
		doLint(os.Stdin, inform, reg)
	}()
	log := zz.EnvLog()
	writes := c15Has(log, "Write(")
	if exited {
		zz.Cover("fails closed")
		zz.Assert(c15Has(log, "Fatal") == 1, "the tool exits through log.Fatal")
		zz.Assert(writes == 0, "for input it cannot decode or parse the tool exits non-zero without printing a result object")
		return
	}
	zz.Cover("prints results")
	// what was parsed, and from which bytes
	want := map[string]string{"pem": "env:pem", "der": "env:file", "base64": "env:b64"}[inform]
	pc, pr := c15Has(log, "ParseCertificate("), c15Has(log, "ParseRevocationList(")
	zz.Assert(pc+pr == 1, "exactly one parser is called")
	zz.Assert(c15Has(log, "ParseCertificate("+want+")")+c15Has(log, "ParseRevocationList("+want+")") == 1, "the parser is handed the bytes the chosen input format yields")
	if pr == 1 {
		zz.Cover("CRL")
		zz.Assert(inform == "pem", "a CRL is only recognised through its PEM armor")
		zz.Assert(c15Has(log, "LintRevocationListEx(env:ParseRevocationList,selected-registry)") == 1, "the parsed CRL is linted with the selected registry")
	} else {
		zz.Cover("certificate")
		zz.Assert(c15Has(log, "LintCertificateEx(env:ParseCertificate,selected-registry)") == 1, "the parsed certificate is linted with the selected registry")
	}
	zz.Assert(c15Has(log, "json.Marshal(env:results)") == 1, "the Results of the library's result set are what is encoded")
	zz.Assert(writes == 2 && c15Index(log, "Write(env:json)") >= 0 && log[len(log)-1] == "Write(\"\\n\")", "standard output gets exactly the encoded results followed by a newline")
}

func c15Pick(pool []string) string {
	i := zz.Int()
	zz.Assume(i >= 0 && i < len(pool))
	return pool[i]
}

// VerifC15SetLints: the selection flags are mapped onto the library's
// FilterOptions, unknown selectors fail closed, and whatever registry is
// selected carries the configuration that was loaded for this run.
func VerifC15SetLints() {
	nameFilter = c15Pick([]string{"", "^e_crl_"})
	includeNames = c15Pick([]string{"", "e_basic_constraints_not_critical, w_rsa_mod_factors_smaller_than_752", "e_no_such_lint"})
	excludeNames = c15Pick([]string{"", " e_basic_constraints_not_critical"})
	includeSources = c15Pick([]string{"", "RFC5280,CABF_BR", "NoSuchSource"})
	excludeSources = c15Pick([]string{"", "RFC5280"})
	profile, config = "", ""
	// whatever configuration an earlier step left on the global registry
	before := lint.NewEmptyConfig()
	lint.GlobalRegistry().SetConfiguration(before)
	var reg lint.Registry
	var err error
	exited := false
	if zz.Replaying() {
		// native replay: log.Fatal must not end the test process
		log.StandardLogger().ExitFunc = func(int) { panic("exit status 1") }
		log.SetOutput(io.Discard)
	}
	func() {
		defer func() {
			if r := recover(); r != nil {
				exited = true
			}
		}()
		reg, err = setLints()
	}()
	badSource := includeSources == "NoSuchSource"
	badName := includeNames == "e_no_such_lint"
	conflict := nameFilter != "" && (includeNames != "" || excludeNames != "")
	if exited {
		zz.Cover("unknown source")
		zz.Assert(badSource, "only an unknown source makes flag processing exit")
		zz.Assert(zz.Replaying() || c15Has(zz.EnvLog(), "Fatal") == 1, "an unknown source ends in log.Fatal")
		return
	}
	zz.Assert(!badSource, "an unknown source is not silently accepted")
	if badName || conflict {
		zz.Cover("rejected selection")
		zz.Assert(err != nil, "an unknown lint name, or a name pattern combined with name lists, is rejected with an error")
		return
	}
	zz.Assert(err == nil && reg != nil, "a valid selection yields a registry")
	if err != nil || reg == nil {
		return
	}
	loaded := lint.GlobalRegistry().GetConfiguration()
	zz.Assert(loaded != before, "the configuration named by -config replaces the earlier one on the global registry")
	zz.Assert(reg.GetConfiguration() == loaded, "the selected registry carries the configuration loaded for this run")
	if nameFilter == "" && includeNames == "" && excludeNames == "" && includeSources == "" && excludeSources == "" {
		zz.Cover("no selection")
		zz.Assert(reg == lint.GlobalRegistry(), "without selection flags the global registry is used")
		return
	}
	zz.Cover("selection")
	// the same selection made through the library
	opts := lint.FilterOptions{}
	if nameFilter != "" {
		opts.NameFilter = regexp.MustCompile(nameFilter)
	}
	if includeNames != "" {
		opts.IncludeNames = []string{"e_basic_constraints_not_critical", "w_rsa_mod_factors_smaller_than_752"}
	}
	if excludeNames != "" {
		opts.ExcludeNames = []string{"e_basic_constraints_not_critical"}
	}
	if includeSources != "" {
		opts.IncludeSources = lint.SourceList{lint.RFC5280, lint.CABFBaselineRequirements}
	}
	if excludeSources != "" {
		opts.ExcludeSources = lint.SourceList{lint.RFC5280}
	}
	want, werr := lint.GlobalRegistry().Filter(opts)
	zz.Assert(werr == nil && want != nil, "the library accepts the same selection")
	if werr != nil || want == nil {
		return
	}
	got, exp := reg.Names(), want.Names()
	zz.Assert(len(got) == len(exp), "the tool selects as many lints as the library does for the same selection")
	if len(got) == len(exp) {
		same := true
		for i := range got {
			if got[i] != exp[i] {
				same = false
			}
		}
		zz.Assert(same, "the tool selects exactly the lints the library selects for the same selection")
	}
}
