package main

// Native differential replay for C15 (run only to confirm a candidate the
// symbolic check found): the real doLint is driven with real inputs in every
// encoding, with log.Fatal turned into a panic and standard output captured,
// and compared with the library called in-process.

import (
	"bytes"
	"encoding/base64"
	"encoding/json"
	"encoding/pem"
	"fmt"
	"io"
	"os"
	"path/filepath"
	"testing"

	log "github.com/sirupsen/logrus"
	"github.com/zmap/zcrypto/x509"
	"github.com/zmap/zlint/v3"
	"github.com/zmap/zlint/v3/lint"
)

type zzExit struct{}

func zzRun(data []byte, inform string, reg lint.Registry) (out []byte, exited bool) {
	dir, _ := os.MkdirTemp("", "zzcli")
	defer os.RemoveAll(dir)
	inPath, outPath := filepath.Join(dir, "in"), filepath.Join(dir, "out")
	os.WriteFile(inPath, data, 0o600)
	in, _ := os.Open(inPath)
	defer in.Close()
	of, _ := os.Create(outPath)
	saved := os.Stdout
	os.Stdout = of
	log.StandardLogger().ExitFunc = func(int) { panic(zzExit{}) }
	log.SetOutput(io.Discard)
	func() {
		defer func() {
			if r := recover(); r != nil {
				if _, ok := r.(zzExit); ok {
					exited = true
					return
				}
				panic(r)
			}
		}()
		doLint(in, inform, reg)
	}()
	os.Stdout = saved
	of.Close()
	out, _ = os.ReadFile(outPath)
	return
}

func TestZZCLI(t *testing.T) {
	prettyprint, summary, longSummary = false, false, false
	reg, err := lint.GlobalRegistry().Filter(lint.FilterOptions{IncludeSources: lint.SourceList{lint.RFC5280}})
	if err != nil {
		t.Fatal(err)
	}
	fail := func(f string, a ...interface{}) { fmt.Printf("ZZ-CLI FAIL "+f+"\n", a...) }
	certPEM, _ := os.ReadFile("../../testdata/caBasicConstCrit.pem")
	blk, _ := pem.Decode(certPEM)
	if blk == nil {
		t.Fatal("no test certificate")
	}
	c, err := x509.ParseCertificate(blk.Bytes)
	if err != nil {
		t.Fatal(err)
	}
	want, _ := json.Marshal(zlint.LintCertificateEx(c, reg).Results)
	want = append(want, '\n')
	onlyCert := pem.EncodeToMemory(&pem.Block{Type: "CERTIFICATE", Bytes: blk.Bytes})
	for _, tc := range []struct {
		name, inform string
		data         []byte
	}{{"pem", "pem", onlyCert}, {"der", "der", blk.Bytes}, {"base64", "base64", []byte(base64.StdEncoding.EncodeToString(blk.Bytes))}} {
		out, exited := zzRun(tc.data, tc.inform, reg)
		if exited || !bytes.Equal(out, want) {
			fail("certificate as %s: exited=%v, output differs from the library's results with the selected registry (%d vs %d bytes)", tc.name, exited, len(out), len(want))
		}
	}
	// CRL through its PEM armor
	crlFiles, _ := filepath.Glob("../../testdata/crl*.pem")
	for _, f := range crlFiles {
		b, _ := os.ReadFile(f)
		cb, _ := pem.Decode(b)
		if cb == nil || cb.Type != "X509 CRL" {
			continue
		}
		crl, err := x509.ParseRevocationList(cb.Bytes)
		if err != nil {
			continue
		}
		all := lint.GlobalRegistry()
		wantCRL, _ := json.Marshal(zlint.LintRevocationListEx(crl, all).Results)
		wantCRL = append(wantCRL, '\n')
		out, exited := zzRun(pem.EncodeToMemory(cb), "pem", all)
		if exited || !bytes.Equal(out, wantCRL) {
			fail("CRL %s as pem: exited=%v, output differs from the library's results", filepath.Base(f), exited)
		}
		break
	}
	// undecodable input fails closed
	for _, tc := range []struct {
		name, inform string
		data         []byte
	}{
		{"garbage pem", "pem", []byte("not a pem file")},
		{"unknown pem type", "pem", pem.EncodeToMemory(&pem.Block{Type: "FOO", Bytes: blk.Bytes})},
		{"truncated der", "der", blk.Bytes[:len(blk.Bytes)/2]},
		{"bad base64", "base64", []byte("!!!!")},
		{"base64 of garbage", "base64", []byte(base64.StdEncoding.EncodeToString([]byte("garbage")))},
		{"corrupt pem body", "pem", pem.EncodeToMemory(&pem.Block{Type: "CERTIFICATE", Bytes: blk.Bytes[:40]})},
		{"corrupt crl body", "pem", pem.EncodeToMemory(&pem.Block{Type: "X509 CRL", Bytes: blk.Bytes[:40]})},
		{"unknown format", "jpeg", blk.Bytes},
	} {
		out, exited := zzRun(tc.data, tc.inform, reg)
		if !exited || len(out) != 0 {
			fail("%s: exited=%v, %d bytes printed (must exit non-zero without printing a result object)", tc.name, exited, len(out))
		}
	}
	fmt.Println("ZZ-CLI DONE")
}
