package zlint

import (
	"github.com/zmap/zcrypto/x509"
	"github.com/zmap/zlint/v3/util"
)

func utilIsServerAuth(c *x509.Certificate) bool { return util.IsServerAuthCert(c) }
func utilIsEmail(c *x509.Certificate) bool      { return util.IsEmailProtectionCert(c) }
func utilIsCS(c *x509.Certificate) bool         { return util.IsCodeSigning(c.PolicyIdentifiers) }
