package lint

import (
	"strings"

	zz "github.com/zmap/zlint/v3/zzverif"
)

type c08Entry struct {
	name string
	kind int // 0 certificate, 1 CRL, 2 OCSP
	src  LintSource
	cert *CertificateLint
	crl  *RevocationListLint
	ocsp *OcspResponseLint
}

var c08Sources = []LintSource{CABFBaselineRequirements, RFC5280, Community}

// c08Source: one of three declared sources, chosen arbitrarily.
func c08Source(id int) LintSource {
	if zz.Param("c08.symsrc", 0) == 0 {
		// quick tier: lint k has source k mod 3 (the option lists stay arbitrary)
		return c08Sources[id%len(c08Sources)]
	}
	i := zz.Int()
	zz.Assume(i >= 0 && i < len(c08Sources))
	return c08Sources[i]
}

// c08Registry builds a registry through the real registration functions:
// nc certificate lints, nr CRL lints, no OCSP lints with distinct names and
// arbitrary sources, and an arbitrary configuration.
func c08Registry(nc, nr, no int) (*registryImpl, []*c08Entry) {
	zzReset()
	r := NewRegistry()
	var es []*c08Entry
	id := 0
	for i := 0; i < nc; i++ {
		e := &c08Entry{name: "e_cert_" + string(rune('a'+i)), kind: 0, src: c08Source(id)}
		e.cert = zzNewCert(id, e.name, e.src)
		zz.Assert(r.registerCertificateLint(e.cert) == nil, "a fresh certificate lint registers")
		es = append(es, e)
		id++
	}
	for i := 0; i < nr; i++ {
		e := &c08Entry{name: "e_crl_" + string(rune('a'+i)), kind: 1, src: c08Source(id)}
		e.crl = zzNewCRL(id, e.name, e.src)
		zz.Assert(r.registerRevocationListLint(e.crl) == nil, "a fresh CRL lint registers")
		es = append(es, e)
		id++
	}
	for i := 0; i < no; i++ {
		e := &c08Entry{name: "w_ocsp_" + string(rune('a'+i)), kind: 2, src: c08Source(id)}
		e.ocsp = zzNewOCSP(id, e.name, e.src)
		zz.Assert(r.registerOcspResponseLint(e.ocsp) == nil, "a fresh OCSP lint registers")
		es = append(es, e)
		id++
	}
	return r, es
}

// c08Name: a list entry - a registered name, possibly padded with ASCII
// blanks, or an arbitrary other string.
func c08Name(es []*c08Entry) string {
	s := zz.String()
	return s
}

func c08NameList(max int, es []*c08Entry) []string {
	n := zz.Int()
	zz.Assume(n >= -1 && n <= max)
	if n < 0 {
		return nil
	}
	l := make([]string, 0, 2)
	for i := 0; i < n; i++ {
		l = append(l, c08Name(es))
	}
	return l
}

func c08SourceList(max int) SourceList {
	n := zz.Int()
	zz.Assume(n >= -1 && n <= max)
	if n < 0 {
		return nil
	}
	l := make(SourceList, 0, 2)
	for i := 0; i < n; i++ {
		// any declared source, including ones no lint has
		k := zz.Int()
		zz.Assume(k >= 0 && k <= len(c08Sources))
		if k == len(c08Sources) {
			l = append(l, EtsiEsi)
		} else {
			l = append(l, c08Sources[k])
		}
	}
	return l
}

func c08InNames(l []string, name string) bool {
	for _, x := range l {
		if strings.TrimSpace(x) == name {
			return true
		}
	}
	return false
}

func c08Known(es []*c08Entry, s string) bool {
	t := strings.TrimSpace(s)
	for _, e := range es {
		if e.name == t {
			return true
		}
	}
	return false
}

func c08InSources(l SourceList, s LintSource) bool {
	for _, x := range l {
		if x == s {
			return true
		}
	}
	return false
}

// VerifC08Filter: Filter selects exactly the documented set, rejects unknown
// names and pattern+names, leaves the source registry alone, keeps kind,
// metadata and configuration.
func VerifC08Filter() {
	r, es := c08Registry(zz.Param("c08.cert", 1), zz.Param("c08.crl", 1), zz.Param("c08.ocsp", 1))
	cfg := NewEmptyConfig()
	r.SetConfiguration(cfg)
	var names []string
	for _, e := range es {
		names = append(names, e.name)
	}
	opts := FilterOptions{
		IncludeNames:   c08NameList(zz.Param("c08.inc", 1), es),
		ExcludeNames:   c08NameList(zz.Param("c08.exc", 1), es),
		IncludeSources: c08SourceList(zz.Param("c08.incsrc", 1)),
		ExcludeSources: c08SourceList(zz.Param("c08.excsrc", 1)),
	}
	if zz.Param("c08.pattern", 1) > 0 && zz.Bool() {
		opts.NameFilter = zz.RegexpOver(names)
	}
	before := r.Names()
	nBefore := len(before)
	zz.MonitorStart()
	fr, err := r.Filter(opts)
	zz.MonitorStop()
	zz.Assert(zz.WriteCount() == 0, "[monitor] Filter writes nothing into the source registry")
	zz.Assert(len(r.Names()) == nBefore, "the source registry keeps its lints")

	// oracle
	unknown := false
	for _, s := range opts.ExcludeNames {
		if !c08Known(es, s) {
			unknown = true
		}
	}
	for _, s := range opts.IncludeNames {
		if !c08Known(es, s) {
			unknown = true
		}
	}
	empty := opts.NameFilter == nil && len(opts.IncludeNames) == 0 && len(opts.ExcludeNames) == 0 && len(opts.IncludeSources) == 0 && len(opts.ExcludeSources) == 0
	if empty {
		zz.Cover("empty options")
		zz.Assert(err == nil && fr == Registry(r), "empty options return the very same registry")
		return
	}
	wantErr := unknown || (opts.NameFilter != nil && (len(opts.IncludeNames) != 0 || len(opts.ExcludeNames) != 0))
	if wantErr {
		zz.Cover("rejected options")
		zz.Assert(err != nil, "an unknown lint name, or a pattern combined with name lists, is rejected")
		zz.Assert(fr == nil, "no registry is returned with an error")
		return
	}
	zz.Cover("accepted options")
	zz.Assert(err == nil, "well-formed options are accepted")
	if err != nil || fr == nil {
		return
	}
	zz.Assert(fr.GetConfiguration() == cfg, "the filtered registry inherits the configuration")
	nsel := 0
	for _, e := range es {
		want := !c08InSources(opts.ExcludeSources, e.src)
		if len(opts.IncludeSources) > 0 && !c08InSources(opts.IncludeSources, e.src) {
			want = false
		}
		if opts.NameFilter != nil && !opts.NameFilter.MatchString(e.name) {
			want = false
		}
		if c08InNames(opts.ExcludeNames, e.name) {
			want = false
		}
		if len(opts.IncludeNames) > 0 && !c08InNames(opts.IncludeNames, e.name) {
			want = false
		}
		gc := fr.CertificateLints().ByName(e.name)
		gr := fr.RevocationListLints().ByName(e.name)
		go_ := fr.OcspResponseLints().ByName(e.name)
		if want {
			nsel++
			zz.Cover("lint selected")
			switch e.kind {
			case 0:
				zz.Assert(gc == e.cert && gr == nil && go_ == nil, "a selected certificate lint is the very same lint, under its own kind only")
			case 1:
				zz.Assert(gr == e.crl && gc == nil && go_ == nil, "a selected CRL lint is the very same lint, under its own kind only")
			case 2:
				zz.Assert(go_ == e.ocsp && gc == nil && gr == nil, "a selected OCSP lint is the very same lint, under its own kind only")
			}
		} else {
			zz.Cover("lint dropped")
			zz.Assert(gc == nil && gr == nil && go_ == nil, "a lint the options do not select is absent from the filtered registry")
		}
	}
	zz.Assert(len(fr.Names()) == nsel, "the filtered registry lists exactly the selected lints")
}
