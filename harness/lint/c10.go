package lint

import (
	zz "github.com/zmap/zlint/v3/zzverif"
)

// VerifC10Lookups: the read-side API of a registry (names, sources, the three
// lookups, filtering) writes nothing into memory that existed before the call
// and releases every lock it takes.
func VerifC10Lookups() {
	r, es := c08Registry(1, 1, 1)
	r.SetConfiguration(NewEmptyConfig())
	zz.MonitorStart()
	_ = r.Names()
	_ = r.Sources()
	for _, e := range es {
		_ = r.CertificateLints().ByName(e.name)
		_ = r.RevocationListLints().ByName(e.name)
		_ = r.OcspResponseLints().ByName(e.name)
		_ = r.CertificateLints().BySource(e.src)
		_ = r.RevocationListLints().BySource(e.src)
		_ = r.OcspResponseLints().BySource(e.src)
		_ = r.ByName(e.name)
		_ = r.BySource(e.src)
	}
	_ = r.CertificateLints().Lints()
	_ = r.RevocationListLints().Lints()
	_ = r.OcspResponseLints().Lints()
	_ = r.CertificateLints().Names()
	_ = r.CertificateLints().Sources()
	_ = r.GetConfiguration()
	fr, err := r.Filter(FilterOptions{IncludeNames: []string{es[0].name}})
	zz.MonitorStop()
	zz.Assert(err == nil && fr != nil, "filtering succeeds")
	zz.Assert(zz.WriteCount() == 0, "[monitor] lookups, listings and filtering store nothing into the shared registry")
	zz.Assert(zz.LocksHeld() == 0, "[monitor] every lock taken by lookups, listings and filtering is released")
	zz.Cover("lookups")
}
