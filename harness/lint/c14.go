package lint

import (
	"strings"

	zz "github.com/zmap/zlint/v3/zzverif"
)

var c14Labels = []string{"reserved", "NA", "NE", "pass", "info", "warn", "error", "fatal"}

// VerifC14Labels: each defined status has its own pinned label; others have none.
func VerifC14Labels() {
	e1 := LintStatus(zz.Int())
	e2 := LintStatus(zz.Int())
	l1 := e1.String()
	if e1 >= 0 && e1 <= 7 {
		zz.Cover("defined status")
		zz.Assert(l1 == c14Labels[int(e1)], "each defined status has its stable label")
		if e2 >= 0 && e2 <= 7 && e1 != e2 {
			zz.Assert(l1 != e2.String(), "distinct statuses have distinct labels")
		}
	} else {
		zz.Cover("undefined status")
		zz.Assert(l1 == "", "a value outside the eight statuses has no label")
	}
}

// VerifC14RoundTrip: UnmarshalJSON(MarshalJSON(e)) == e for the eight statuses.
func VerifC14RoundTrip() {
	e := LintStatus(zz.Int())
	zz.Assume(e >= 0 && e <= 7)
	b, err := e.MarshalJSON()
	zz.Assert(err == nil, "MarshalJSON of a defined status succeeds")
	d := LintStatus(zz.Int())
	err = d.UnmarshalJSON(b)
	zz.Cover("round trip")
	zz.Assert(err == nil, "UnmarshalJSON accepts what MarshalJSON produced")
	zz.Assert(d == e, "status survives a JSON round trip")
}

// VerifC14Rejects: an arbitrary label decodes iff it is one of the eight; on error the value is untouched.
func VerifC14Rejects() {
	s := zz.String()
	zz.Assume(!strings.Contains(s, "\""))
	data := []byte("\"" + s + "\"")
	d0 := LintStatus(zz.Int())
	d := d0
	err := d.UnmarshalJSON(data)
	// the decoder strips every double quote before looking the label up
	clean := s
	idx := -1
	for i, l := range c14Labels {
		if clean == l {
			idx = i
		}
	}
	if idx >= 0 {
		zz.Cover("known label")
		zz.Assert(err == nil, "a defined label decodes")
		zz.Assert(int(d) == idx, "a defined label decodes to its status")
	} else {
		zz.Cover("unknown label")
		zz.Assert(err != nil, "an unknown status label is rejected when decoding")
		zz.Assert(d == d0, "a rejected label leaves the value unchanged")
	}
}
