package lint

import (
	"strings"

	zz "github.com/zmap/zlint/v3/zzverif"
)

func c13Declared() []string {
	all := zz.NamedConsts("github.com/zmap/zlint/v3/lint", "LintSource")
	var out []string
	for _, s := range all {
		if s != string(UnknownLintSource) {
			out = append(out, s)
		}
	}
	return out
}

func c13In(s string, l []string) bool {
	for _, x := range l {
		if s == x {
			return true
		}
	}
	return false
}

// VerifC13FromString: for an arbitrary string s, FromString accepts s exactly
// when s (trimmed) is one of the declared LintSource constants, and then yields it.
func VerifC13FromString() {
	declared := c13Declared()
	zz.Assert(len(declared) >= 10, "the declared source constants were found")
	s := zz.String()
	var src LintSource
	src.FromString(s)
	t := strings.TrimSpace(s)
	known := c13In(t, declared)
	if known {
		zz.Cover("declared source")
		zz.Assert(src != UnknownLintSource, "every declared source is accepted by LintSource.FromString")
		zz.Assert(string(src) == t, "FromString yields the source that was named")
	} else {
		zz.Cover("unknown source")
		zz.Assert(src == UnknownLintSource, "an undeclared source is mapped to Unknown by FromString")
	}
}

// VerifC13UnmarshalJSON: UnmarshalJSON of the JSON string "s" accepts exactly the declared sources.
func VerifC13UnmarshalJSON() {
	declared := c13Declared()
	s := zz.String()
	// the JSON decoder is modelled for strings without escapes or control characters
	zz.Assume(zz.Matches(s, "^[ !#-\\[\\]-~]*$"))
	data := []byte("\"" + s + "\"")
	var src LintSource = LintSource(zz.String())
	err := src.UnmarshalJSON(data)
	if c13In(s, declared) {
		zz.Cover("declared source")
		zz.Assert(err == nil, "every declared source survives LintSource.UnmarshalJSON")
		zz.Assert(string(src) == s, "UnmarshalJSON yields the source that was named")
	} else {
		zz.Cover("unknown source")
		zz.Assert(err != nil, "an undeclared source is rejected by LintSource.UnmarshalJSON")
	}
}

// VerifC13SourceList: SourceList.FromString on up to three comma separated items.
func VerifC13SourceList() {
	declared := c13Declared()
	n := zz.Int()
	zz.Assume(n >= 1 && n <= zz.Param("c13.items", 2))
	items := make([]string, 0, 3)
	raw := ""
	for i := 0; i < n; i++ {
		it := zz.String()
		zz.Assume(zz.Matches(it, "^[A-Za-z0-9_]*$"))
		items = append(items, it)
		if i > 0 {
			raw += ","
		}
		raw += it
	}
	var l SourceList
	err := l.FromString(raw)
	var want []string
	bad := false
	for _, it := range items {
		if it == "" {
			continue
		}
		if !c13In(it, declared) {
			bad = true
			break
		}
		want = append(want, it)
	}
	if bad {
		zz.Cover("list with unknown item")
		zz.Assert(err != nil, "a source list with an unknown item is rejected")
		return
	}
	zz.Cover("list of known items")
	zz.Assert(err == nil, "a source list of declared sources is accepted")
	zz.Assert(len(l) == len(want), "the parsed list has one entry per non-blank item")
	for i := range want {
		if i < len(l) {
			zz.Assert(string(l[i]) == want[i], "the parsed list keeps the items in order")
		}
	}
}
