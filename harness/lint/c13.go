package lint

import (
	"strings"

	zz "github.com/zmap/zlint/v3/zzverif"
)

func c13Declared() []string {
	all := zz.NamedConsts("github.com/zmap/zlint/v3/lint", "LintSource")
	var out []string
	for _, s := range all {
		if s != string(UnknownLintSource) {
			out = append(out, s)
		}
	}
	return out
}

func c13In(s string, l []string) bool {
	for _, x := range l {
		if s == x {
			return true
		}
	}
	return false
}

// VerifC13FromString: for an arbitrary string s, FromString accepts s exactly
// when s (trimmed) is one of the declared LintSource constants, and then yields it.
func VerifC13FromString() {
	declared := c13Declared()
	zz.Assert(len(declared) >= 10, "the declared source constants were found")
	s := zz.String()
	var src LintSource
	src.FromString(s)
	t := strings.TrimSpace(s)
	known := c13In(t, declared)
	if known {
		zz.Cover("declared source")
		zz.Assert(src != UnknownLintSource, "every declared source is accepted by LintSource.FromString")
		zz.Assert(string(src) == t, "FromString yields the source that was named")
	} else {
		zz.Cover("unknown source")
		zz.Assert(src == UnknownLintSource, "an undeclared source is mapped to Unknown by FromString")
	}
}

// VerifC13UnmarshalJSON: UnmarshalJSON of the JSON string "s" accepts exactly the declared sources.
func VerifC13UnmarshalJSON() {
	declared := c13Declared()
	s := zz.String()
	// the JSON decoder is modelled for strings without escapes or control characters
	zz.Assume(zz.Matches(s, "^[ !#-\\[\\]-~]*$"))
	data := []byte("\"" + s + "\"")
	var src LintSource = LintSource(zz.String())
	err := src.UnmarshalJSON(data)
	if c13In(s, declared) {
		zz.Cover("declared source")
		zz.Assert(err == nil, "every declared source survives LintSource.UnmarshalJSON")
		zz.Assert(string(src) == s, "UnmarshalJSON yields the source that was named")
	} else {
		zz.Cover("unknown source")
		zz.Assert(err != nil, "an undeclared source is rejected by LintSource.UnmarshalJSON")
	}
}

// VerifC13SourceList: SourceList.FromString on up to three comma separated items.
func VerifC13SourceList() {
	declared := c13Declared()
	n := zz.Int()
	zz.Assume(n >= 1 && n <= zz.Param("c13.items", 2))
	items := make([]string, 0, 3)
	raw := ""
	for i := 0; i < n; i++ {
		it := zz.String()
		zz.Assume(zz.Matches(it, "^[A-Za-z0-9_]*$"))
		items = append(items, it)
		if i > 0 {
			raw += ","
		}
		raw += it
	}
	var l SourceList
	err := l.FromString(raw)
	var want []string
	bad := false
	for _, it := range items {
		if it == "" {
			continue
		}
		if !c13In(it, declared) {
			bad = true
			break
		}
		want = append(want, it)
	}
	if bad {
		zz.Cover("list with unknown item")
		zz.Assert(err != nil, "a source list with an unknown item is rejected")
		return
	}
	zz.Cover("list of known items")
	zz.Assert(err == nil, "a source list of declared sources is accepted")
	zz.Assert(len(l) == len(want), "the parsed list has one entry per non-blank item")
	for i := range want {
		if i < len(l) {
			zz.Assert(string(l[i]) == want[i], "the parsed list keeps the items in order")
		}
	}
}

// VerifC13NamesSelectable: on a registry that has already been filtered once
// and then gained a lint of an arbitrary kind, every listed name is accepted as
// an include and as an exclude name, and an include selects it.
func VerifC13NamesSelectable() {
	r, es := c08Registry(1, 1, 1)
	_, err := r.Filter(FilterOptions{IncludeNames: []string{es[0].name}})
	zz.Assert(err == nil, "filtering by a listed name succeeds")
	kind := zz.Int()
	zz.Assume(kind >= 0 && kind <= 2)
	late := "e_late"
	switch kind {
	case 0:
		zz.Assert(r.registerCertificateLint(zzNewCert(10, late, RFC5280)) == nil, "late certificate lint registers")
	case 1:
		zz.Assert(r.registerRevocationListLint(zzNewCRL(10, late, RFC5280)) == nil, "late CRL lint registers")
	default:
		zz.Assert(r.registerOcspResponseLint(zzNewOCSP(10, late, RFC6960)) == nil, "late OCSP lint registers")
	}
	names := r.Names()
	zz.Assert(len(names) == 4, "the new lint is listed")
	for _, n := range names {
		fr, err := r.Filter(FilterOptions{IncludeNames: []string{n}})
		zz.Assert(err == nil && fr != nil, "every listed lint name is accepted as an include name")
		if fr != nil {
			zz.Assert(len(fr.Names()) == 1 && fr.Names()[0] == n, "including a listed name selects exactly that lint")
		}
		fx, err := r.Filter(FilterOptions{ExcludeNames: []string{n}})
		zz.Assert(err == nil && fx != nil, "every listed lint name is accepted as an exclude name")
		if fx != nil {
			zz.Assert(len(fx.Names()) == 3, "excluding a listed name drops exactly that lint")
		}
	}
	for _, s := range r.Sources() {
		var l SourceList
		zz.Assert(l.FromString(string(s)) == nil && len(l) == 1 && l[0] == s, "every listed source is accepted by the source-list parser")
	}
	zz.Cover("names selectable")
}
