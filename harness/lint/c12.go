package lint

import (
	"sort"

	zz "github.com/zmap/zlint/v3/zzverif"
)

func c12Has(l []string, s string) bool {
	for _, x := range l {
		if x == s {
			return true
		}
	}
	return false
}

// VerifC12RegisterCert: every history of up to k registrations with arbitrary
// names and sources, starting from an empty lookup, keeps the lookup tables in
// step: rejected exactly for an empty or already registered name (state
// unchanged), otherwise name list sorted and duplicate free, and lookup by
// name, by source, the listing and the source list agree.
func VerifC12RegisterCert() {
	zzReset()
	r := NewRegistry()
	k := zz.Param("c12.k", 3)
	var names []string
	var srcs []LintSource
	var ls []*CertificateLint
	for i := 0; i < k; i++ {
		var name string
		if zz.Param("c12.alphabet", 0) > 0 {
			// order-type variant: the empty name or one of three ordered names
			pool := []string{"", "e_a", "e_b", "e_c"}
			pi := zz.Int()
			zz.Assume(pi >= 0 && pi < len(pool))
			name = pool[pi]
		} else {
			name = zz.String()
		}
		src := c08Sources[0]
		if zz.Bool() {
			src = c08Sources[1]
		}
		l := zzNewCert(i, name, src)
		before := len(r.certificateLints.Names())
		err := r.registerCertificateLint(l)
		if name == "" || c12Has(names, name) {
			zz.Cover("rejected registration")
			zz.Assert(err != nil, "an empty or already registered name is rejected")
			zz.Assert(len(r.certificateLints.Names()) == before && len(r.certificateLints.Lints()) == before, "a rejected registration leaves the lookup unchanged")
			continue
		}
		zz.Cover("accepted registration")
		zz.Assert(err == nil, "a fresh non-empty name is accepted")
		names = append(names, name)
		srcs = append(srcs, src)
		ls = append(ls, l)
	}
	// invariant of the state reached (shorter histories are the smaller bounds of this harness)
	got := r.certificateLints.Names()
	zz.Assert(len(got) == len(names), "the name list has one entry per registered lint")
	zz.Assert(len(r.certificateLints.Lints()) == len(names), "the listing has one entry per registered lint")
	for j := 0; j+1 < len(got); j++ {
		zz.Assert(got[j] < got[j+1], "the name list is sorted and duplicate free")
	}
	for j, n := range names {
		zz.Assert(c12Has(got, n), "every registered name is listed")
		zz.Assert(r.certificateLints.ByName(n) == ls[j], "lookup by name returns the registered lint")
		found := false
		for _, x := range r.certificateLints.BySource(srcs[j]) {
			if x == ls[j] {
				found = true
			}
		}
		zz.Assert(found, "lookup by source returns the registered lint")
		hasSrc := false
		for _, s := range r.certificateLints.Sources() {
			if s == srcs[j] {
				hasSrc = true
			}
		}
		zz.Assert(hasSrc, "the source list contains the source of every registered lint")
	}
	zz.Assert(len(r.Names()) == len(names), "the registry-wide name list agrees")
}

// VerifC12RegisterGuards: nil lints and nil constructors are rejected by all three kinds;
// a name is also rejected by the deprecated Lint path.
func VerifC12RegisterGuards() {
	zzReset()
	r := NewRegistry()
	zz.Assert(r.registerCertificateLint(nil) != nil, "a nil certificate lint is rejected")
	zz.Assert(r.registerRevocationListLint(nil) != nil, "a nil CRL lint is rejected")
	zz.Assert(r.registerOcspResponseLint(nil) != nil, "a nil OCSP lint is rejected")
	zz.Assert(r.registerCertificateLint(&CertificateLint{LintMetadata: LintMetadata{Name: "e_x"}, Lint: func() CertificateLintInterface { return nil }}) != nil, "a certificate lint whose constructor yields nil is rejected")
	zz.Assert(r.registerRevocationListLint(&RevocationListLint{LintMetadata: LintMetadata{Name: "e_x"}, Lint: func() RevocationListLintInterface { return nil }}) != nil, "a CRL lint whose constructor yields nil is rejected")
	zz.Assert(r.registerOcspResponseLint(&OcspResponseLint{LintMetadata: LintMetadata{Name: "e_x"}, Lint: func() OcspResponseLintInterface { return nil }}) != nil, "an OCSP lint whose constructor yields nil is rejected")
	name := zz.String()
	e1 := r.registerRevocationListLint(zzNewCRL(0, name, RFC5280))
	e2 := r.registerOcspResponseLint(zzNewOCSP(1, name, RFC6960))
	if name == "" {
		zz.Cover("empty name")
		zz.Assert(e1 != nil && e2 != nil, "an empty name is rejected for CRL and OCSP lints")
	} else {
		zz.Cover("non-empty name")
		zz.Assert(e1 == nil && e2 == nil, "a fresh name is accepted for CRL and OCSP lints")
		zz.Assert(r.registerRevocationListLint(zzNewCRL(2, name, RFC5280)) != nil, "a duplicate CRL lint name is rejected")
		zz.Assert(r.registerOcspResponseLint(zzNewOCSP(3, name, RFC6960)) != nil, "a duplicate OCSP lint name is rejected")
		zz.Assert(len(r.Names()) == 2 && sort.StringsAreSorted(r.Names()), "both lints are listed")
	}
}
