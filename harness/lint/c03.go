package lint

import (
	"time"

	zz "github.com/zmap/zlint/v3/zzverif"
)

// oracle for the half-open window, written with Unix()/Nanosecond() only
func c03Before(a, b time.Time) bool {
	if a.Unix() != b.Unix() {
		return a.Unix() < b.Unix()
	}
	return a.Nanosecond() < b.Nanosecond()
}

func c03IsZero(t time.Time) bool {
	// January 1, year 1, 00:00:00 UTC is Unix second -62135596800
	return t.Unix() == -62135596800 && t.Nanosecond() == 0
}

// VerifC03CheckEffective: checkEffective(eff, ineff, tgt) == (eff zero || tgt >= eff) && (ineff zero || tgt < ineff)
func VerifC03CheckEffective() {
	eff, ineff, tgt := zz.Time(), zz.Time(), zz.Time()
	got := checkEffective(eff, ineff, tgt)
	lower := c03IsZero(eff) || !c03Before(tgt, eff)
	upper := c03IsZero(ineff) || c03Before(tgt, ineff)
	want := lower && upper
	if got {
		zz.Cover("in-window")
	} else {
		zz.Cover("out-of-window")
	}
	zz.Assert(got == want, "checkEffective equals the half-open window oracle")
}

// VerifC03CalendarModel: sanity of the engine's calendar abstraction (used when
// code under test re-derives an instant from calendar fields): rebuilding a UTC
// instant from its own fields gives the instant back.  Under the engine this
// exercises the model's axioms; the sampled paths are replayed natively, where
// the real package time must agree.
func VerifC03CalendarModel() {
	t := zz.Time()
	u := time.Date(t.Year(), t.Month(), t.Day(), t.Hour(), t.Minute(), t.Second(), t.Nanosecond(), time.UTC)
	zz.Cover("rebuilt")
	zz.Assert(u.Equal(t), "an instant rebuilt from its calendar fields in UTC is the same instant")
	zz.Assert(u.Unix() == t.Unix() && u.Nanosecond() == t.Nanosecond(), "seconds and nanoseconds survive the rebuild")
}
