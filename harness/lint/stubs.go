package lint

// Stub lints for the framework harnesses.  Their behaviour (applicability,
// verdict, panic) is chosen by the harness - symbolically under the engine -
// and every call is recorded in a ghost log.

import (
	"github.com/zmap/zcrypto/x509"
	"golang.org/x/crypto/ocsp"
)

type zzBehaviour struct {
	Applies bool
	Panics  bool
	Status  LintStatus
	Details string
}

type zzEvent struct {
	What string
	ID   int
	Inst interface{}
}

var zzBehav = map[int]*zzBehaviour{}
var zzLog []zzEvent

func zzReset() {
	zzBehav = map[int]*zzBehaviour{}
	zzLog = nil
}

func zzResult(id int) *LintResult {
	b := zzBehav[id]
	if b.Panics {
		panic("stub lint panics")
	}
	res := &LintResult{Status: b.Status, Details: b.Details}
	zzLog = append(zzLog, zzEvent{"result", id, res})
	return res
}

type zzCertLint struct{ ID int }

func (l *zzCertLint) CheckApplies(c *x509.Certificate) bool {
	zzLog = append(zzLog, zzEvent{"applies", l.ID, l})
	return zzBehav[l.ID].Applies
}
func (l *zzCertLint) Execute(c *x509.Certificate) *LintResult {
	zzLog = append(zzLog, zzEvent{"execute", l.ID, l})
	return zzResult(l.ID)
}

type zzCRLLint struct{ ID int }

func (l *zzCRLLint) CheckApplies(c *x509.RevocationList) bool {
	zzLog = append(zzLog, zzEvent{"applies", l.ID, l})
	return zzBehav[l.ID].Applies
}
func (l *zzCRLLint) Execute(c *x509.RevocationList) *LintResult {
	zzLog = append(zzLog, zzEvent{"execute", l.ID, l})
	return zzResult(l.ID)
}

type zzOCSPLint struct{ ID int }

func (l *zzOCSPLint) CheckApplies(c *ocsp.Response) bool {
	zzLog = append(zzLog, zzEvent{"applies", l.ID, l})
	return zzBehav[l.ID].Applies
}
func (l *zzOCSPLint) Execute(c *ocsp.Response) *LintResult {
	zzLog = append(zzLog, zzEvent{"execute", l.ID, l})
	return zzResult(l.ID)
}

func zzNewCert(id int, name string, src LintSource) *CertificateLint {
	return &CertificateLint{LintMetadata: LintMetadata{Name: name, Description: "stub", Citation: "stub", Source: src},
		Lint: func() CertificateLintInterface {
			l := &zzCertLint{ID: id}
			zzLog = append(zzLog, zzEvent{"new", id, l})
			return l
		}}
}

func zzNewCRL(id int, name string, src LintSource) *RevocationListLint {
	return &RevocationListLint{LintMetadata: LintMetadata{Name: name, Description: "stub", Citation: "stub", Source: src},
		Lint: func() RevocationListLintInterface {
			l := &zzCRLLint{ID: id}
			zzLog = append(zzLog, zzEvent{"new", id, l})
			return l
		}}
}

func zzNewOCSP(id int, name string, src LintSource) *OcspResponseLint {
	return &OcspResponseLint{LintMetadata: LintMetadata{Name: name, Description: "stub", Citation: "stub", Source: src},
		Lint: func() OcspResponseLintInterface {
			l := &zzOCSPLint{ID: id}
			zzLog = append(zzLog, zzEvent{"new", id, l})
			return l
		}}
}
