package lint

// Stub lints for the framework harnesses.  Their behaviour (applicability,
// verdict, panic) is chosen by the harness - symbolically under the engine -
// and every call is recorded in a ghost log.

import (
	"github.com/zmap/zcrypto/x509"
	"golang.org/x/crypto/ocsp"
)

type zzBehaviour struct {
	Applies bool
	Panics  bool
	// PanicsEarly: the panic happens in CheckApplies rather than in Execute
	PanicsEarly bool
	Status      LintStatus
	Details     string
}

type zzEvent struct {
	What string
	ID   int
	Inst interface{}
}

var zzBehav = map[int]*zzBehaviour{}
var zzLog []zzEvent

func zzReset() {
	zzBehav = map[int]*zzBehaviour{}
	zzLog = nil
	zzSeen = map[int]ZZCfg{}
}

func zzResult(id int) *LintResult {
	b := zzBehav[id]
	if b.Panics {
		panic("stub lint panics")
	}
	res := &LintResult{Status: b.Status, Details: b.Details}
	zzLog = append(zzLog, zzEvent{"result", id, res})
	return res
}

type zzCertLint struct{ ID int }

func (l *zzCertLint) CheckApplies(c *x509.Certificate) bool {
	zzLog = append(zzLog, zzEvent{"applies", l.ID, l})
	if zzBehav[l.ID].Panics && zzBehav[l.ID].PanicsEarly {
		panic("stub lint panics in CheckApplies")
	}
	return zzBehav[l.ID].Applies
}
func (l *zzCertLint) Execute(c *x509.Certificate) *LintResult {
	zzLog = append(zzLog, zzEvent{"execute", l.ID, l})
	return zzResult(l.ID)
}

type zzCRLLint struct{ ID int }

func (l *zzCRLLint) CheckApplies(c *x509.RevocationList) bool {
	zzLog = append(zzLog, zzEvent{"applies", l.ID, l})
	if zzBehav[l.ID].Panics && zzBehav[l.ID].PanicsEarly {
		panic("stub lint panics in CheckApplies")
	}
	return zzBehav[l.ID].Applies
}
func (l *zzCRLLint) Execute(c *x509.RevocationList) *LintResult {
	zzLog = append(zzLog, zzEvent{"execute", l.ID, l})
	return zzResult(l.ID)
}

type zzOCSPLint struct{ ID int }

func (l *zzOCSPLint) CheckApplies(c *ocsp.Response) bool {
	zzLog = append(zzLog, zzEvent{"applies", l.ID, l})
	if zzBehav[l.ID].Panics && zzBehav[l.ID].PanicsEarly {
		panic("stub lint panics in CheckApplies")
	}
	return zzBehav[l.ID].Applies
}
func (l *zzOCSPLint) Execute(c *ocsp.Response) *LintResult {
	zzLog = append(zzLog, zzEvent{"execute", l.ID, l})
	return zzResult(l.ID)
}

func zzNewCert(id int, name string, src LintSource) *CertificateLint {
	return &CertificateLint{LintMetadata: LintMetadata{Name: name, Description: "stub", Citation: "stub", Source: src},
		Lint: func() CertificateLintInterface {
			l := &zzCertLint{ID: id}
			zzLog = append(zzLog, zzEvent{"new", id, l})
			return l
		}}
}

func zzNewCRL(id int, name string, src LintSource) *RevocationListLint {
	return &RevocationListLint{LintMetadata: LintMetadata{Name: name, Description: "stub", Citation: "stub", Source: src},
		Lint: func() RevocationListLintInterface {
			l := &zzCRLLint{ID: id}
			zzLog = append(zzLog, zzEvent{"new", id, l})
			return l
		}}
}

func zzNewOCSP(id int, name string, src LintSource) *OcspResponseLint {
	return &OcspResponseLint{LintMetadata: LintMetadata{Name: name, Description: "stub", Citation: "stub", Source: src},
		Lint: func() OcspResponseLintInterface {
			l := &zzOCSPLint{ID: id}
			zzLog = append(zzLog, zzEvent{"new", id, l})
			return l
		}}
}

// ---- configurable stubs (C11) ----

type ZZCfg struct {
	Rounds int
	Skip   bool
}

type zzCfgCertLint struct {
	ID  int
	Cfg ZZCfg
}

func (l *zzCfgCertLint) Configure() interface{} {
	zzLog = append(zzLog, zzEvent{"configure", l.ID, l})
	return &l.Cfg
}
func (l *zzCfgCertLint) CheckApplies(c *x509.Certificate) bool {
	zzLog = append(zzLog, zzEvent{"applies", l.ID, l})
	if b := zzBehav[l.ID]; b != nil {
		return b.Applies
	}
	return true
}
func (l *zzCfgCertLint) Execute(c *x509.Certificate) *LintResult {
	zzLog = append(zzLog, zzEvent{"execute", l.ID, l})
	zzSeen[l.ID] = l.Cfg
	return &LintResult{Status: Pass}
}

type zzCfgCRLLint struct {
	ID  int
	Cfg ZZCfg
}

func (l *zzCfgCRLLint) Configure() interface{} {
	zzLog = append(zzLog, zzEvent{"configure", l.ID, l})
	return &l.Cfg
}
func (l *zzCfgCRLLint) CheckApplies(c *x509.RevocationList) bool {
	zzLog = append(zzLog, zzEvent{"applies", l.ID, l})
	if b := zzBehav[l.ID]; b != nil {
		return b.Applies
	}
	return true
}
func (l *zzCfgCRLLint) Execute(c *x509.RevocationList) *LintResult {
	zzLog = append(zzLog, zzEvent{"execute", l.ID, l})
	zzSeen[l.ID] = l.Cfg
	return &LintResult{Status: Pass}
}

type zzCfgOCSPLint struct {
	ID  int
	Cfg ZZCfg
}

func (l *zzCfgOCSPLint) Configure() interface{} {
	zzLog = append(zzLog, zzEvent{"configure", l.ID, l})
	return &l.Cfg
}
func (l *zzCfgOCSPLint) CheckApplies(c *ocsp.Response) bool {
	zzLog = append(zzLog, zzEvent{"applies", l.ID, l})
	if b := zzBehav[l.ID]; b != nil {
		return b.Applies
	}
	return true
}
func (l *zzCfgOCSPLint) Execute(c *ocsp.Response) *LintResult {
	zzLog = append(zzLog, zzEvent{"execute", l.ID, l})
	zzSeen[l.ID] = l.Cfg
	return &LintResult{Status: Pass}
}

// zzSeen: the configuration each configurable stub saw when its body last ran.
var zzSeen = map[int]ZZCfg{}

var zzDefaultCfg = ZZCfg{Rounds: 100, Skip: false}

// ZZAddConfigurable registers a configurable stub lint (defaults Rounds=100, Skip=false).
func ZZAddConfigurable(r Registry, kind, id int, name string) {
	ri := r.(*registryImpl)
	var err error
	md := LintMetadata{Name: name, Description: "configurable stub", Citation: "stub", Source: RFC5280}
	switch kind {
	case 0:
		err = ri.registerCertificateLint(&CertificateLint{LintMetadata: md, Lint: func() CertificateLintInterface { return &zzCfgCertLint{ID: id, Cfg: zzDefaultCfg} }})
	case 1:
		err = ri.registerRevocationListLint(&RevocationListLint{LintMetadata: md, Lint: func() RevocationListLintInterface { return &zzCfgCRLLint{ID: id, Cfg: zzDefaultCfg} }})
	default:
		err = ri.registerOcspResponseLint(&OcspResponseLint{LintMetadata: md, Lint: func() OcspResponseLintInterface { return &zzCfgOCSPLint{ID: id, Cfg: zzDefaultCfg} }})
	}
	if err != nil {
		panic("harness: stub registration failed: " + err.Error())
	}
}

// ZZSeen reports the configuration the stub's body saw (ok=false: the body did not run).
func ZZSeen(id int) (ZZCfg, bool) {
	c, ok := zzSeen[id]
	return c, ok
}

func ZZForget() {
	zzSeen = map[int]ZZCfg{}
	zzLog = nil
}

func ZZConfigured(id int) int {
	n := 0
	for _, e := range zzLog {
		if e.What == "configure" && e.ID == id {
			n++
		}
	}
	return n
}
