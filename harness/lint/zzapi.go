package lint

import "time"

// Exported surface of the stub-lint machinery for harnesses in other packages
// (exists only in the overlay).

type ZZStub struct {
	ID   int
	Kind int // 0 certificate, 1 CRL, 2 OCSP
	Cert *CertificateLint
	CRL  *RevocationListLint
	OCSP *OcspResponseLint
}

func (s *ZZStub) Meta() LintMetadata {
	switch s.Kind {
	case 0:
		return s.Cert.LintMetadata
	case 1:
		return s.CRL.LintMetadata
	}
	return s.OCSP.LintMetadata
}

func ZZReset() { zzReset() }

func ZZNewRegistry() Registry { return NewRegistry() }

// ZZAdd registers a stub lint of the given kind through the real registration code.
func ZZAdd(r Registry, kind, id int, name string, src LintSource, eff, ineff time.Time) *ZZStub {
	ri := r.(*registryImpl)
	s := &ZZStub{ID: id, Kind: kind}
	var err error
	switch kind {
	case 0:
		s.Cert = zzNewCert(id, name, src)
		s.Cert.EffectiveDate, s.Cert.IneffectiveDate = eff, ineff
		err = ri.registerCertificateLint(s.Cert)
	case 1:
		s.CRL = zzNewCRL(id, name, src)
		s.CRL.EffectiveDate, s.CRL.IneffectiveDate = eff, ineff
		err = ri.registerRevocationListLint(s.CRL)
	default:
		s.OCSP = zzNewOCSP(id, name, src)
		s.OCSP.EffectiveDate, s.OCSP.IneffectiveDate = eff, ineff
		err = ri.registerOcspResponseLint(s.OCSP)
	}
	if err != nil {
		panic("harness: stub registration failed: " + err.Error())
	}
	return s
}

func ZZSetBehaviour(id int, applies, panics bool, status LintStatus, details string) {
	zzBehav[id] = &zzBehaviour{Applies: applies, Panics: panics, Status: status, Details: details}
}

type ZZEvent struct {
	What string
	ID   int
	Inst interface{}
}

func ZZLog() []ZZEvent {
	out := make([]ZZEvent, 0, len(zzLog))
	for _, e := range zzLog {
		out = append(out, ZZEvent{e.What, e.ID, e.Inst})
	}
	return out
}

// ZZCheckEffective exposes the window kernel to harnesses outside the package.
func ZZCheckEffective(eff, ineff, tgt time.Time) bool { return checkEffective(eff, ineff, tgt) }

// ZZClearLog forgets the events recorded so far (registration itself calls the
// constructor once to check it yields an implementation).
func ZZClearLog() { zzLog = nil }

// ZZSetPanicsEarly makes a panicking stub panic in CheckApplies instead of Execute.
func ZZSetPanicsEarly(id int, early bool) {
	if b := zzBehav[id]; b != nil {
		b.PanicsEarly = early
	}
}
