#!/usr/bin/env python3
"""Overlay-based triage of seeded changes (does not touch /repo): for every /tmp/wt_<ID>/seed<n>.patch the
patched files are injected by SYMGO_OVERLAY and the property's quick check is run.  Several run in parallel.
The recorded evaluation (tools/seed_eval.sh) applies the patch to /repo instead."""
import subprocess, os, sys, glob, concurrent.futures, re
ids = sys.argv[1:] or sorted(set(os.path.basename(os.path.dirname(p))[3:] for p in glob.glob('/tmp/wt_*/seed*.patch')))
def prep(ID, n):
    wt = '/tmp/wt_%s' % ID
    d = '/tmp/ovs/%s_%d' % (ID, n)
    os.makedirs(d, exist_ok=True)
    # work in a private copy of the worktree index: apply, copy files, revert (serialised per worktree)
    subprocess.run(['git', '-C', wt, 'checkout', '-q', '--', '.'])
    r = subprocess.run(['git', '-C', wt, 'apply', 'seed%d.patch' % n], capture_output=True, text=True)
    if r.returncode != 0:
        return None
    files = subprocess.run(['git', '-C', wt, 'status', '--porcelain'], capture_output=True, text=True).stdout.split('\n')
    ov = []
    for l in files:
        f = l[3:].strip()
        if not f.endswith('.go') or f.startswith('seed') or '/' not in f:
            continue
        dst = os.path.join(d, f.replace('/', '_'))
        subprocess.run(['cp', os.path.join(wt, f), dst])
        ov.append('/repo/%s=%s' % (f, dst))
    subprocess.run(['git', '-C', wt, 'checkout', '-q', '--', '.'])
    subprocess.run(['git', '-C', wt, 'clean', '-fdq', 'v3'])
    return ','.join(ov)
def run(job):
    ID, n, ov = job
    env = dict(os.environ, SYMGO_EVIDENCE_DIR='/tmp/ev_triage', SYMGO_OVERLAY=ov, SYMGO_WORKERS='6', VERIF_ROOT='/verif', GOFLAGS='-mod=mod', GOPROXY='off', GOSUMDB='off', GOTOOLCHAIN='local')
    out = subprocess.run(['/verif/bin/symgo', 'check', ID, 'quick'], capture_output=True, text=True, env=env, cwd='/verif').stdout
    lines = [l for l in out.split('\n') if l.startswith(('VIOLATION', '  what', ID + ' quick', 'ENGINE'))]
    caught = any(l.startswith('VIOLATION property=' + ID) for l in lines)
    unconf = out.count('UNCONFIRMED')
    return ID, n, caught, unconf, [l[:230] for l in lines[:5]]
jobs = []
for ID in ids:
    for n in (1, 2):
        if os.path.exists('/tmp/wt_%s/seed%d.patch' % (ID, n)):
            ov = prep(ID, n)
            if ov:
                jobs.append((ID, n, ov))
with concurrent.futures.ThreadPoolExecutor(max_workers=3) as ex:
    for ID, n, caught, unconf, lines in ex.map(run, jobs):
        print('%s-%d caught=%s unconfirmed=%d' % (ID, n, caught, unconf))
        for l in lines:
            print('     ', l)
        sys.stdout.flush()
