#!/bin/sh
# tools/mutant.sh <check-id> <tier> <repo-relative file> <sed expression>
# Runs a check against a mutated copy of one source file injected by overlay; /repo is not touched.
id="$1"; tier="$2"; f="$3"; expr="$4"
tmp=$(mktemp -d /tmp/mutant.XXXXXX)
sed "$expr" "/repo/v3/$f" > "$tmp/m.go"
if cmp -s "$tmp/m.go" "/repo/v3/$f"; then echo "MUTANT-NOOP"; rm -rf "$tmp"; exit 9; fi
diff "/repo/v3/$f" "$tmp/m.go" | head -6
SYMGO_EVIDENCE_DIR=/tmp/ev_mutant SYMGO_OVERLAY="/repo/v3/$f=$tmp/m.go" /verif/check "$id" "$tier" 2>&1 | grep -v "^INCONCLUSIVE" | tail -6
rc=$?
rm -rf "$tmp"
