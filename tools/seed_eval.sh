#!/bin/bash
# tools/seed_eval.sh <ID> <n> [check-id]: confirm a seeded change (worktree /tmp/wt_<ID>, files seed<n>.patch / seed<n>_demo_test.go / seed<n>.json),
# then run the property's quick check against it in /repo and record everything under /verif/seeded/<ID>-<n>/.
ID=$1; N=$2; CK=${3:-$ID}
WT=${WT:-/tmp/wt_$ID}
export GOFLAGS=-mod=mod GOPROXY=off GOSUMDB=off GOTOOLCHAIN=local
OUT=/verif/seeded/$ID-${OUTN:-$N}
mkdir -p $OUT
cp $WT/seed$N.patch $OUT/patch.diff
cp $WT/seed${N}_demo_test.go $OUT/demo_test.go.txt 2>/dev/null
DEMODIR=$(python3 -c "import json;print(json.load(open('$WT/seed$N.json')).get('demo_dir','v3'))" 2>/dev/null)
DEMODIR=${DEMODIR%/}
git -C $WT checkout -q -- . ; git -C $WT clean -fdq v3 >/dev/null 2>&1
# sync the scratch worktree with /repo HEAD (fix commits may have landed since it was created)
git -C $WT checkout -q --detach $(git -C /repo rev-parse HEAD) 2>/dev/null
cp $WT/seed${N}_demo_test.go $WT/$DEMODIR/zz_seed_demo_test.go
PKG=./${DEMODIR#v3/}; [ "$DEMODIR" = "v3" ] && PKG=.
clean_demo=$(cd $WT/v3 && go test -vet=off -count=1 -run 'Seed|seed|ZZ|Zz' $PKG 2>&1 | tail -3 | tr '\n' ' ')
if ! git -C $WT apply seed$N.patch 2>/tmp/apply_err_$ID$N; then echo "PATCH DOES NOT APPLY: $(cat /tmp/apply_err_$ID$N)"; fi
build=$(cd $WT/v3 && go build ./... 2>&1 | tail -3 | tr '\n' ' ')
seeded_demo=$(cd $WT/v3 && go test -vet=off -count=1 -run 'Seed|seed|ZZ|Zz' $PKG 2>&1 | tail -3 | tr '\n' ' ')
rm -f $WT/$DEMODIR/zz_seed_demo_test.go
suite=$(cd $WT/v3 && go test -vet=off -count=1 ./... 2>&1 | grep -v "^ok\|no test files" | head -5 | tr '\n' ' ')
git -C $WT checkout -q -- . 
# run the check against the change in /repo
if [ -n "$SKIP_CHECK" ]; then
  chk="(check not run yet)"; caught=pending
else
  git -C /repo apply $OUT/patch.diff
  chk=$(cd /verif && SYMGO_EVIDENCE_DIR=/tmp/ev_seed ./check $CK quick 2>&1 | grep -v "^INCONCLUSIVE\|^UNCONFIRMED\|^KNOWN" | cut -c1-400 | tail -8)
  git -C /repo checkout -- .
  caught=no; echo "$chk" | grep -q "^VIOLATION property=$CK" && caught=yes
fi
python3 - "$ID" "$N" "$CK" "$clean_demo" "$build" "$seeded_demo" "$suite" "$caught" "$chk" "$WT" "$OUT" <<'PY'
import json,sys
ID,N,CK,clean,build,seeded,suite,caught,chk,WT,OUT=sys.argv[1:12]
meta=json.load(open('%s/seed%s.json'%(WT,N)))
import os
prev=None
if os.path.exists(OUT+'/meta.json'):
    try:
        pm=json.load(open(OUT+'/meta.json')); prev=pm.get('first_verdict') or {"check_caught":pm.get('checked_by_me',{}).get('check_caught'),"check_output_tail":pm.get('checked_by_me',{}).get('check_output_tail','')[-300:]}
    except Exception: pass
if prev and os.environ.get('KEEP_FIRST'): meta['first_verdict']=prev
import re
caught_by="; ".join(sorted(set(re.findall(r"what: ([^\[]{0,160})", chk))))[:400]
meta.update({"checked_by_me":{"caught_by":caught_by,"demo_without_change":clean,"build_with_change":build or "ok","demo_with_change":seeded,"existing_suite_with_change":suite or "all packages ok","check_run":"./check %s quick (patch applied to /repo with git apply, undone afterwards)"%CK,"check_caught":caught,"check_output_tail":chk}})
json.dump(meta,open(OUT+'/meta.json','w'),indent=1)
print(ID,N,"caught="+caught,"| demo clean:",clean[:60],"| demo seeded:",seeded[:80],"| suite:",(suite or "ok")[:60])
PY
