#!/usr/bin/env python3
"""Writes /verif/seeded/README.md from the meta.json files under /verif/seeded/."""
import json, glob, os
rows = []
for d in sorted(glob.glob('/verif/seeded/C*-*')):
    mp = os.path.join(d, 'meta.json')
    if not os.path.exists(mp):
        continue
    m = json.load(open(mp))
    ck = m.get('checked_by_me', {})
    what = m.get('what_breaks', '').replace('\n', ' ').replace('|', '/')
    needs = m.get('needs_to_manifest', '').replace('\n', ' ').replace('|', '/')
    fv = m.get('first_verdict')
    caught = ck.get('check_caught', '?')
    if fv and fv.get('check_caught') != caught:
        caught += ' (first evaluated, before the check was changed for it: %s)' % fv.get('check_caught')
    rows.append((os.path.basename(d), m.get('property', ''), ', '.join(m.get('files_changed', [])), what[:260], needs[:220], caught, ck.get('caught_by', '')))
out = ['# Seeded changes', '',
       'Each directory holds `patch.diff` (the change), `demo_test.go.txt` (a test that fails with the change and passes without) and `meta.json`',
       '(what it breaks, what it needs to manifest, what I ran: demo without/with the change, the unedited suite with the change, the property\'s quick check',
       'with the patch applied to /repo by `git apply` and undone afterwards).  None of these changes is committed to /repo.', '',
       '| seed | property | files | what breaks (abridged) | needs | caught by `./check <property> quick` | reporting job / assertion |',
       '|------|----------|-------|------------------------|-------|------|------|']
for r in rows:
    out.append('| %s | %s | %s | %s | %s | %s | %s |' % r)
n = len(rows)
c = sum(1 for r in rows if r[5].startswith('yes'))
first = sum(1 for r in rows if r[5] == 'yes')
out += ['', '%d of %d seeded changes are reported as VIOLATION by the quick check of their property (%d of them already when first evaluated; `<id>-3`/`<id>-4` are the second round, first evaluated against frozen machinery: see DESIGN.md section 10).' % (c, n, first), '']
open('/verif/seeded/README.md', 'w').write('\n'.join(out))
print(c, 'of', n)
