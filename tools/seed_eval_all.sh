#!/bin/bash
# tools/seed_eval_all.sh: the recorded evaluation of every seeded change (patch applied to /repo, check run, patch undone).
# Needs the scratch worktrees /tmp/wt_<ID> with seed<n>.patch / seed<n>_demo_test.go / seed<n>.json (see tools/seed_eval.sh).
cd /verif
for d in $(ls -d /tmp/wt_C* | sort); do
  id=$(basename $d); id=${id#wt_}
  for n in 1 2 3; do
    [ -f $d/seed$n.patch ] || continue
    tools/seed_eval.sh $id $n 2>&1 | tail -1 | cut -c1-200
    git -C /repo status --short | grep -v '^??' && { echo "REPO NOT CLEAN after $id-$n"; git -C /repo checkout -- .; }
  done
done
# second round (worktrees /tmp/wt2_<ID>, stored as <ID>-3 / <ID>-4)
for d in $(ls -d /tmp/wt2_C* 2>/dev/null | sort); do
  id=$(basename $d); id=${id#wt2_}
  for n in 1 2; do
    [ -f $d/seed$n.patch ] || continue
    WT=$d OUTN=$((n+2)) tools/seed_eval.sh $id $n 2>&1 | tail -1 | cut -c1-200
    git -C /repo status --short | grep -v '^??' && { echo "REPO NOT CLEAN after $id-$((n+2))"; git -C /repo checkout -- .; }
  done
done
python3 tools/seed_table.py
