#!/bin/bash
# tools/seed_restore.sh: recreate the scratch worktrees tools/seed_eval.sh works on from the records under /verif/seeded
# (<ID>-1/-2 -> /tmp/wt_<ID> seed1/seed2; <ID>-3/-4 -> /tmp/wt2_<ID> seed1/seed2).  Remove them afterwards with
# `git -C /repo worktree remove --force <dir>`.
for d in /verif/seeded/C*-*; do
  b=$(basename $d); id=${b%-*}; n=${b#*-}
  if [ "$n" -le 2 ]; then wt=/tmp/wt_$id; k=$n; else wt=/tmp/wt2_$id; k=$((n-2)); fi
  [ -d $wt ] || git -C /repo worktree add -q --detach $wt HEAD
  cp $d/patch.diff $wt/seed$k.patch
  cp $d/demo_test.go.txt $wt/seed${k}_demo_test.go
  python3 -c "
import json
m=json.load(open('$d/meta.json')); m.pop('checked_by_me',None); m.pop('first_verdict',None); json.dump(m,open('$wt/seed$k.json','w'),indent=1)"
done
