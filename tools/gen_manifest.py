#!/usr/bin/env python3
"""Regenerates /verif/MANIFEST.json from the table below (single source of truth)."""
import json
props=[json.loads(l) for l in open('/verif/properties.jsonl')]
ids=[p['id'] for p in props]
TECH="symbolic execution of go/ssa to SMT-LIB2; z3 verdict (unsat) per path and assertion; counterexamples replayed natively"
NOTE="trusted: go/ssa construction, the executor's instruction semantics (sampled path models are replayed natively on every run), z3 5.1.0; stubs and bounds as listed in the evidence file"
checks={
 "C01":("zlint.Lint*Ex, ResultSet.execute*, updateErrorStatePresent and the three Execute wrappers (defer/recover included) executed symbolically over registries of stub lints (built through the real registration code) whose applicability, panic and verdict are symbolic, on an arbitrary object; completeness, keys, metadata, status range, the four flags and the version asserted; escaping panics are findings","DESIGN.md §8 C01"),
 "C03":("bounded symbolic model checking of the window kernel (checkEffective, util.OnOrAfter, time.Time methods from stdlib source) against an independent oracle for all instants under P1; placement of the window test in the three Execute wrappers (stub lint with arbitrary dates; the judged instant is NotBefore / ThisUpdate / NextUpdate; the body is not run outside the window)","DESIGN.md §8 C03"),
 "C04":("the three Execute wrappers under Lint*Ex with a call-logging stub lint of arbitrary source, window dates, applicability and body outcome: scope gate, NA/NE short cuts, call order, single fresh instance and identity of the returned result asserted on every path; the three scope predicates compared with an arc-wise oracle on an arbitrary certificate","DESIGN.md §8 C04"),
 "C08":("Registry.Filter, lintNamesToMap, sourceListToMap, Empty and the three register functions executed symbolically on registries built through the real registration code; FilterOptions symbolic (arbitrary strings in the name lists, arbitrary source lists, an arbitrary pattern); result compared with the five-clause oracle, plus unchanged source registry (write monitor), kind/pointer identity and inherited configuration","DESIGN.md §8 C08"),
 "C12":("the three register functions executed symbolically on bounded registration histories (arbitrary names; a four-name pool covering all order types) with the lookup invariant asserted; the real registry is built by executing every package init from SSA and inspected entry by entry; census of Register*Lint call instructions vs registered lints; import-closure side condition","DESIGN.md §8 C12"),
 "C13":("LintSource.FromString/UnmarshalJSON/SourceList.FromString executed symbolically on an unbounded symbolic string; accepted set == declared constants (read from the SSA package)","DESIGN.md §8 C13"),
 "C16":("the RSA key-quality lints run symbolically (through the registry built by the engine-executed init chain) on a certificate with an arbitrary positive modulus (SMT Int) and exponent (64-bit) and compared with arithmetic oracles; trial division by the prime table: table facts + 750 divisor obligations; Fermat: reported factors multiply back (rounds bounded)","DESIGN.md §8 C16"),
 "C18":("GTLDPeriod.Valid, HasValidTLD and IsInTLDMap executed symbolically for every instant, an arbitrary domain (bounded label count) and an arbitrary well-formed delegation table (bounded entry count, arbitrary date strings with time.Parse uninterpreted, plus a replayable concrete-date variant); table facts and per-entry boundary instants of the real 1574-entry table evaluated concretely by the engine","DESIGN.md §8 C18"),
 "C19":("util.IsIANAReserved/IntersectsIANAReserved with net.IP/net.IPNet methods executed from stdlib source; address bytes and prefix length symbolic (all 2^32 IPv4 addresses, all 2^128 IPv6 addresses for the block laws, every IPv4 prefix length for the network laws)","DESIGN.md §8 C19"),
 "C14":("status<->label tables executed symbolically for an arbitrary 64-bit status and an arbitrary label string; round trip and rejection decided by z3","DESIGN.md §8 C14"),
}
na={}
m={"version":1,
 "setup_cmd":"cd /verif/engine && GOFLAGS=-mod=mod GOPROXY=off GOSUMDB=off GOTOOLCHAIN=local go build -o /verif/bin/symgo .",
 "hooks":{"guard":"verif","enable":"none needed: harnesses are injected with go/packages Overlay (symbolic runs) and `go test -overlay` (native replays); /repo carries no hook code","baseline_off_cmd":"cd /repo/v3 && GOFLAGS=-mod=mod go test -vet=off -count=1 -timeout 25m ./... && cd cmd/genTestCerts && GOFLAGS=-mod=mod go test -vet=off -count=1 ./...","source_commits":[],"add_only":True},
 "engines":[{"name":"symgo","path":"/verif/engine","serves_properties":sorted(checks),"kind_free_text":"path-wise symbolic executor for go/ssa (x/tools v0.29.0) emitting SMT-LIB2 to z3 5.1.0 (cross-checks: z3 4.8.12, cvc5); native replay through go test -overlay"}],
 "checks":[{"property_id":i,"quick_cmd":"./check %s quick"%i,"thorough_cmd":"./check %s thorough"%i,"evidence_file":"/verif/evidence/%s.json"%i,"replay_cmd_template":"./check %s --replay {path}"%i,"engine":"symgo",
   "level_claimed":{"category":"model_checking","text":checks[i][0],"design_ref":checks[i][1]},"level_note":NOTE,"technique":TECH} for i in sorted(checks)],
 "not_applicable":[{"property_id":i,"reason":na.get(i,"check under construction in this session; will be claimed or given a final reason")} for i in ids if i not in checks],
 "notes":"see DESIGN.md; known_findings.json lists recorded/fixed defects"}
json.dump(m,open('/verif/MANIFEST.json','w'),indent=1)
print("checks:",sorted(checks))
